"""E3 (part 2) -- algebraic value numbering: one forward pass over a function's structured body.

The pass assigns every variable a canonical term over the parameters (terms.py).  Joins use a gated
phi (`ite`), loops are summarised (map / sum / fold / while terms) -- never unrolled unless they
iterate over a literal -- and every `return` / `raise` / `assert` becomes one *guarded exit* of the
function summary.  No path is enumerated and no solver is involved; callees from the analysed package
are inlined (bounded depth) unless the policy keeps them uninterpreted.
"""
import ast
import os

from . import terms as tm
from .terms import T
from .model import AnalysisError, FunctionInfo, dotted_parts

MAX_UNROLL = 600


class Exit:
    __slots__ = ("guard", "kind", "value", "node", "func", "exc", "facts")

    def __init__(self, guard, kind, value, node, func, exc=None, facts=()):
        self.guard = tuple(guard)
        self.facts = tuple(facts)
        self.kind = kind  # 'return' | 'raise'
        self.value = value
        self.node = node
        self.func = func
        self.exc = exc

    def __repr__(self):
        return "<%s %s if %s>" % (self.kind, tm.show(self.value), " ∧ ".join(tm.show(g) for g in self.guard))


class LoopInfo:
    def __init__(self, node, kind, func):
        self.node = node
        self.kind = kind
        self.func = func
        self.cond = None
        self.iter = None
        self.init = {}
        self.body = {}
        self.depth = 0
        self.has_break = False
        self.exits = []


class Summary:
    def __init__(self, fi):
        self.fi = fi
        self.exits = []
        self.loops = []
        self.calls = []  # (qualname or extern name, args, kwargs, node, guard)
        self.hazards = []  # (exception class, operand term, node, guard, facts, func): primitive raise sites
        self.env = {}
        self.notes = []

    def returns(self):
        return [e for e in self.exits if e.kind == "return"]

    def raises(self):
        return [e for e in self.exits if e.kind == "raise"]

    def value(self):
        """Gated return value: ite over the return exits in program order (raises are separate exits)."""
        rets = self.returns()
        if not rets:
            return T("noreturn", ())
        val = rets[-1].value
        for e in reversed(rets[:-1]):
            val = tm.ite(tm.land(list(e.guard)), e.value, val)
        return val


class Policy:
    def __init__(self, opaque=(), prims=None, max_depth=6, opaque_pred=None):
        self.opaque = set(opaque)
        self.prims = prims or {}
        self.max_depth = max_depth
        self.opaque_pred = opaque_pred
        self.alias = {}  # real qualified name of a function -> the name the obligation uses for it (re-exports, moved functions)

    def resolve_aliases(self, prog):
        for q in list(self.opaque) + list(self.prims):
            try:
                fi = prog.function(q)
            except Exception:
                continue
            if fi is not None and fi.qualname != q:
                self.alias[fi.qualname] = q


class Frame:
    def __init__(self, ev, modname, fi, summary, depth):
        self.ev = ev
        self.modname = modname
        self.fi = fi
        self.summary = summary
        self.env = {}
        self.guard = []
        self.facts = []
        self.depth = depth
        self.loopdepth = 0
        self.trystack = []
        self.iters = {}  # loop depth -> iterable the bound variable ranges over

    def fork(self, extra_guard=None):
        f = Frame(self.ev, self.modname, self.fi, self.summary, self.depth)
        f.env = clone(self.env)
        f.guard = list(self.guard) + ([extra_guard] if extra_guard is not None else [])
        f.facts = list(self.facts)
        f.loopdepth = self.loopdepth
        f.trystack = list(self.trystack)
        f.iters = dict(self.iters)
        f.is_gen = getattr(self, "is_gen", False)
        return f


class _Iter:
    """iter(<sequence of known structure>): an iterator object with a position, consumed by for loops and next() and resumed
    where a previous loop left it."""

    def __init__(self, items, pos=0):
        self.items, self.pos = list(items), pos
        self.partial = False  # True: only a prefix of what the iterator yields is known

    def rest(self):
        if self.partial:
            raise AnalysisError("a lazily evaluated generator is consumed beyond the part whose filter conditions are decided")
        return self.items[self.pos:]


class _CallStream:
    """iter(callable, sentinel), possibly wrapped in filter(None, ...): an endless stream of results of calling `callable`;
    every next() is a fresh call (and, when filtered, a truthy one)."""

    def __init__(self, fn, sentinel, truthy=False, pred=None):
        self.fn, self.sentinel, self.truthy, self.pred = fn, sentinel, truthy, pred


def _percent_format(fmt_, args):
    """'...%05d...%s' % args with a constant format string: literal text and one formatted piece per conversion, as an f-string
    with the same specs would give (`'blk%05d.dat' % n` and f'blk{n:05d}.dat' are one term); None for anything unusual."""
    import re
    if not isinstance(fmt_, str) or isinstance(fmt_, T):
        return None
    if isinstance(args, dict) or (isinstance(args, T) and tm.tyof(args) in (tm.DICT, tm.TUPLE, tm.ANY)):
        return None
    vals = list(args) if isinstance(args, tuple) else [args]
    pieces = re.split(r"(%(?:%|[-0 +#]*\d*(?:\.\d+)?[dsxXori]))", fmt_)
    if "%" in "".join(p for p in pieces[0::2]):
        return None  # a conversion this does not know
    parts, k = [], 0
    for i, p_ in enumerate(pieces):
        if i % 2 == 0:
            if p_:
                parts.append(p_)
            continue
        if p_ == "%%":
            parts.append("%")
            continue
        if k >= len(vals):
            return None
        v = vals[k]
        k += 1
        flags, conv = p_[1:-1], p_[-1]
        if flags and not re.fullmatch(r"0?\d+", flags) and not (tm.is_conc(v) and not isinstance(v, (bytes, list, dict, tuple))):
            return None  # only zero padding / a minimum width mean the same in a format spec
        if tm.is_conc(v) and not isinstance(v, (bytes, list, dict, tuple)):
            try:
                parts.append(p_ % v)
                continue
            except (TypeError, ValueError):
                return None
        if conv in "di" :
            if tm.tyof(v) not in (tm.INT, tm.BOOL):
                return None
            parts.append(T("fmt", (tm._fz(v), (flags + "d") if flags else None, -1), tm.STR) if flags else T("fmt", (tm._fz(v), None, -1), tm.STR))
        elif conv == "s" and not flags:
            parts.append(v if tm.tyof(v) == tm.STR else T("fmt", (tm._fz(v), None, -1), tm.STR))
        elif conv in "xXo" and tm.tyof(v) in (tm.INT, tm.BOOL):
            parts.append(T("fmt", (tm._fz(v), flags + conv, -1), tm.STR))
        else:
            return None
    if k != len(vals):
        return None
    return tm.scat(parts)


def _nonlocal_names(fnode):
    out = []
    work = list(fnode.body)
    while work:
        n = work.pop()
        if isinstance(n, (ast.FunctionDef, ast.AsyncFunctionDef, ast.Lambda, ast.ClassDef)):
            continue
        if isinstance(n, ast.Nonlocal):
            out.extend(n.names)
        work.extend(ast.iter_child_nodes(n))
    return out


class _Closure:
    """A function defined inside a function (a decorator's wrapper, a helper): its definition and the environment it closes over
    (by reference, as in Python)."""

    def __init__(self, fi, env):
        self.fi, self.env = fi, env

    def __repr__(self):
        return "<closure %s>" % self.fi.qualname


class _BytesIO:
    """io.BytesIO(initial): a byte buffer with a read / write position. read(n) hands out buf[pos:pos+n] and advances, read()
    the rest; write(x) appends (only at the end: the uses in this package never seek back before writing)."""

    def __init__(self, buf=b"", pos=0):
        self.buf, self.pos = buf, pos


class _Obj:
    """An instance of a class of the package: its class and its attributes. `tuple_like` instances (NamedTuple) also unpack,
    index and compare like the tuple of their fields."""

    def __init__(self, modname, cls, fields=None, tuple_like=False):
        self.modname, self.cls, self.fields, self.tuple_like = modname, cls, dict(fields or {}), tuple_like

    def __repr__(self):
        return "<%s.%s %s>" % (self.modname, self.cls, {k: tm.show(v)[:40] for k, v in self.fields.items()})

    def __eq__(self, other):
        if self is other:
            return True
        if not isinstance(other, _Obj):
            if self.tuple_like and isinstance(other, tuple):
                return tuple(self.fields.values()) == other
            return False
        if not (self.tuple_like and other.tuple_like) or (self.modname, self.cls) != (other.modname, other.cls):
            return False  # plain instances compare by identity
        return list(self.fields) == list(other.fields) and all(tm.veq(a, b) for a, b in zip(self.fields.values(), other.fields.values()))

    def __ne__(self, other):
        return not self.__eq__(other)

    def __hash__(self):
        return hash((self.modname, self.cls))


class _EnumInt(int):
    """A member of an IntEnum / IntFlag of the package: the integer it is (arithmetic, comparison, formatting, hashing all as
    that integer), plus which member of which class, so that .name / .value / the class's own methods and properties resolve."""

    def __new__(cls, v, modname, ecls, member):
        o = int.__new__(cls, v)
        o.modname, o.cls, o.member = modname, ecls, member
        return o

    def __deepcopy__(self, memo):
        return self

    def __copy__(self):
        return self

    def __reduce__(self):
        return (_EnumInt, (int(self), self.modname, self.cls, self.member))


class _EnumStr(str):
    """A member of a `class X(str, Enum)` / StrEnum of the package."""

    def __new__(cls, v, modname, ecls, member):
        o = str.__new__(cls, v)
        o.modname, o.cls, o.member = modname, ecls, member
        return o

    def __deepcopy__(self, memo):
        return self

    def __copy__(self):
        return self

    def __reduce__(self):
        return (_EnumStr, (str(self), self.modname, self.cls, self.member))


def clone(v, _memo=None):
    if isinstance(v, _Obj):
        _memo = {} if _memo is None else _memo
        if id(v) in _memo:
            return _memo[id(v)]
        o = _Obj(v.modname, v.cls, {}, v.tuple_like)
        if getattr(v, "value_eq", None) is not None:
            o.value_eq = v.value_eq
        _memo[id(v)] = o
        o.fields = {k: clone(x, _memo) for k, x in v.fields.items()}
        return o
    if isinstance(v, list):
        _memo = {} if _memo is None else _memo
        return [clone(x, _memo) for x in v]
    if isinstance(v, dict):
        _memo = {} if _memo is None else _memo  # two names for one object stay two names for one object
        return {k: clone(x, _memo) for k, x in v.items()}
    if isinstance(v, _Iter):
        return _Iter(v.items, v.pos)
    if isinstance(v, _BytesIO):
        _memo = {} if _memo is None else _memo
        if id(v) not in _memo:
            _memo[id(v)] = _BytesIO(v.buf, v.pos)
        return _memo[id(v)]
    return v


class _ExprRaise(Exception):
    def __init__(self, exc):
        Exception.__init__(self, exc)
        self.exc = exc


class _Break(Exception):
    pass


class _Continue(Exception):
    pass


def _toplevel_fillers(tree, name):
    """Module-level statements (after the first assignment of `name`) that mutate the container bound to `name`."""
    out, seen = [], False
    for st in tree.body:
        if isinstance(st, (ast.Assign, ast.AnnAssign)) and any(isinstance(t, ast.Name) and t.id == name for t in (st.targets if isinstance(st, ast.Assign) else [st.target])):
            seen = True
            out = []
            continue
        if not seen or isinstance(st, (ast.FunctionDef, ast.ClassDef, ast.Import, ast.ImportFrom, ast.AsyncFunctionDef)):
            continue
        touches = False
        for n in ast.walk(st):
            if isinstance(n, ast.Subscript) and isinstance(n.ctx, ast.Store) and isinstance(n.value, ast.Name) and n.value.id == name:
                touches = True
            if isinstance(n, ast.Call) and isinstance(n.func, ast.Attribute) and isinstance(n.func.value, ast.Name) and n.func.value.id == name and \
                    n.func.attr in ("update", "append", "extend", "setdefault", "insert", "pop", "clear"):
                touches = True
        if touches and not isinstance(st, (ast.Assign, ast.AnnAssign)) or (touches and isinstance(st, ast.Assign)):
            out.append(st)
    return out


def _fact_closure(c):
    """Facts that follow from an established condition: all(<cond(x)> for x in seq) gives the same for-all fact an assert in a
    loop over seq gives; a conjunction gives its members' facts."""
    out = []
    if isinstance(c, T) and c.op == "land":
        for x in c.args:
            out.extend(_fact_closure(x))
    if isinstance(c, T) and c.op == "all" and len(c.args) == 1:
        m = _unfz(c.args[0])
        if isinstance(m, T) and m.op == "map" and m.args[2] is None:
            body = _unfz(m.args[0])
            depths = [t.args[0] for t in tm.subterms(body) if isinstance(t, T) and t.op in ("bv", "bvi")]
            if depths:
                out.append(T("forall", (min(depths), tm._fz(_unfz(m.args[1])), tm.truth(body)), tm.BOOL))
    return out


def _unslice(k):
    if isinstance(k, tuple) and len(k) == 4 and k[0] == "#slice":
        return slice(k[1], k[2], k[3])
    return _unfz(k) if isinstance(k, tuple) and k and isinstance(k[0], str) and k[0].startswith("#") else k


def _fzslice(k):
    return ("#slice", k.start, k.stop, k.step) if isinstance(k, slice) else tm._fz(k)


_STRUCT_INT = {"B": 1, "H": 2, "I": 4, "L": 4, "Q": 8}


def _struct_layout(fmt):
    """(byte order, [(kind, width, count)]) of a struct format with explicit byte order and standard sizes (< > ! =), unsigned
    integers, `s` strings and pad bytes only; None for anything else (native alignment, signed, floats)."""
    import re as _re
    fmt = fmt.replace(" ", "")
    if fmt and (fmt[0] == "@" or fmt[0] not in "<>!=") and _re.fullmatch(r"@?(\d*[sxB])+", fmt):
        fmt = "=" + fmt.lstrip("@")  # native mode: byte strings, pad bytes and single bytes have no alignment and no byte order
    if not fmt or fmt[0] not in "<>!=":
        return None
    order = "little" if fmt[0] == "<" else "big"
    if fmt[0] == "=":
        import sys as _sys
        order = _sys.byteorder
    out = []
    for cnt, ch in _re.findall(r"(\d*)([A-Za-z?])", fmt[1:]):
        if "".join(c + k for c, k in _re.findall(r"(\d*)([A-Za-z?])", fmt[1:])) != fmt[1:]:
            return None
        k = int(cnt) if cnt else 1
        if ch == "s":
            out.append(("s", k, 1))
        elif ch == "x":
            out.append(("x", k, 1))
        elif ch in _STRUCT_INT:
            for _ in range(k):
                out.append(("u", _STRUCT_INT[ch], 1))
        else:
            return None
    return order, out


def _struct_unpack(lay, buf, off, exact=True):
    order, fields = lay
    total = sum(w for _, w, _ in fields)
    n = tm.blen(buf)
    if isinstance(n, int) and not isinstance(n, bool):
        if (exact and n != total + off) or n < total + off:
            return T("raise", ("struct.error",))
    elif exact:
        return NotImplemented  # struct.unpack requires len(buffer) == size: not decidable for a buffer of unknown length
    out = []
    for kind, w, _ in fields:
        piece = tm.slc(buf, off, off + w)
        if kind == "s":
            out.append(piece)
        elif kind == "u":
            out.append(tm.b2i(piece, order))
        off += w
    return tuple(out)


def _struct_pack(lay, vals):
    order, fields = lay
    out = []
    vals = list(vals)
    for kind, w, _ in fields:
        if kind == "x":
            out.append(b"\x00" * w)
            continue
        v = vals.pop(0)
        if kind == "u":
            out.append(tm.i2b(v, w, order))
        else:
            n = tm.blen(v)
            if not (isinstance(n, int) and not isinstance(n, bool)):
                return NotImplemented
            out.append(tm.cat([tm.slc(v, 0, w)] + ([b"\x00" * (w - n)] if n < w else [])))
    return tm.cat(out)


_OPERATOR_FNS = {"operator." + k: (v, 2) for k, v in {
    "xor": ast.BitXor, "or_": ast.BitOr, "and_": ast.BitAnd, "add": ast.Add, "sub": ast.Sub, "mul": ast.Mult, "lshift": ast.LShift,
    "rshift": ast.RShift, "floordiv": ast.FloorDiv, "mod": ast.Mod, "pow": ast.Pow, "concat": ast.Add}.items()}
_OPERATOR_FNS.update({k.replace("operator.", "operator.__") + "__": v for k, v in list(_OPERATOR_FNS.items())})
_MUTATORS = ("pop", "popleft", "popitem", "setdefault", "add", "discard", "extendleft", "remove", "clear", "insert", "sort", "reverse")


def _is_generator(fnode):
    """Does the function body (not nested functions) contain a yield?"""
    stack = list(fnode.body)
    while stack:
        n = stack.pop()
        if isinstance(n, (ast.Yield, ast.YieldFrom)):
            return True
        if isinstance(n, (ast.FunctionDef, ast.AsyncFunctionDef, ast.Lambda, ast.ClassDef)):
            continue
        stack.extend(ast.iter_child_nodes(n))
    return False


def assigned_names(stmts):
    out = []

    def tgt(t):
        if isinstance(t, ast.Name):
            if t.id not in out:
                out.append(t.id)
        elif isinstance(t, (ast.Tuple, ast.List)):
            for e in t.elts:
                tgt(e)
        elif isinstance(t, ast.Subscript):
            base = t.value
            while isinstance(base, ast.Subscript):
                base = base.value
            if isinstance(base, ast.Name) and base.id not in out:
                out.append(base.id)
        elif isinstance(t, ast.Starred):
            tgt(t.value)

    for st in stmts:
        for n in ast.walk(st):
            if isinstance(n, ast.Assign):
                for t in n.targets:
                    tgt(t)
            elif isinstance(n, (ast.AugAssign, ast.AnnAssign, ast.NamedExpr)):
                tgt(n.target)
            elif isinstance(n, (ast.For,)):
                tgt(n.target)
            elif isinstance(n, ast.With):
                for it in n.items:
                    if it.optional_vars is not None:
                        tgt(it.optional_vars)
            elif isinstance(n, (ast.Yield, ast.YieldFrom)):
                if "__yield__" not in out:
                    out.append("__yield__")
            elif isinstance(n, ast.Call) and isinstance(n.func, ast.Attribute) and n.func.attr in (
                    "append", "extend", "update", "pop", "insert", "remove", "clear", "popleft", "appendleft", "reverse", "sort",
                    "setdefault", "add", "discard", "popitem", "extendleft", "__setitem__", "__delitem__"):
                base = n.func.value
                while isinstance(base, ast.Subscript):
                    base = base.value
                if isinstance(base, ast.Name) and base.id not in out:
                    out.append(base.id)
    return out


ANN_TY = {"int": tm.INT, "bytes": tm.BYTES, "str": tm.STR, "bool": tm.BOOL, "float": tm.FLOAT, "dict": tm.DICT,
          "list": tm.LIST, "List": tm.LIST, "tuple": tm.TUPLE, "Tuple": tm.TUPLE}


def ann_type(node):
    if node is None:
        return tm.ANY
    if isinstance(node, ast.Name):
        return ANN_TY.get(node.id, tm.ANY)
    if isinstance(node, ast.Attribute):
        return ANN_TY.get(node.attr, tm.ANY)
    if isinstance(node, ast.Subscript):
        base = node.value
        nm = base.attr if isinstance(base, ast.Attribute) else getattr(base, "id", "")
        if nm == "Optional":
            return tm.ANY
        return ANN_TY.get(nm, tm.ANY)
    return tm.ANY


class Evaluator:
    def __init__(self, prog, policy=None):
        self.prog = prog
        self.policy = policy or Policy()
        self._const_cache = {}
        self._const_busy = set()
        self._stack = []
        self._lambdas = {}
        self._bind_memo_for, self._bind_memo = None, {}
        self.assumptions = {}  # boolean term -> bool: mode facts fixed by the obligation (E4)
        self.bind = {}  # term -> concrete representative of its region (E4)
        self._cur_cls = None  # (module, class) of the method under evaluation
        self.objects = {}  # term -> {attribute: value}: objects whose attributes the scenario under analysis fixes (vars() / getattr())
        self._opaque_log = []  # result terms of calls that were not inlined (their callee may raise anything)
        self.io_fn = None  # optional callable(method, receiver, args, kwargs) -> value / NotImplemented: scripted I/O device
        self.assume_fn = None  # optional callable(condition term) -> True / False / None: scripted outcome of environment predicates
        self.range_fn = None  # optional callable(integer term) -> (lo, hi) / None: a range the obligation vouches for

    def decide(self, c):
        """Fold a condition with the obligation's mode assumptions."""
        if isinstance(c, T) and self.assume_fn is not None:
            r = self.assume_fn(c)
            if r is not None:
                return r
        if not isinstance(c, T) or not (self.assumptions or self.assume_fn is not None):
            return c
        if c in self.assumptions:
            return self.assumptions[c]
        n = tm.lnot(c)
        if isinstance(n, T) and n in self.assumptions:
            return not self.assumptions[n]
        if c.op == "land":
            return tm.land([self.decide(x) for x in c.args])
        if c.op == "lor":
            return tm.lor([self.decide(x) for x in c.args])
        if c.op == "not":
            return tm.lnot(self.decide(c.args[0]))
        return c

    # ------------------------------------------------------------------ module constants (E1)
    def const(self, modname, name):
        key = (modname, name)
        if key in self._const_cache:
            return self._const_cache[key]
        if key in self._const_busy:
            return tm.unk("cyclic:%s.%s" % key)
        self._const_busy.add(key)
        try:
            m = self.prog.module(modname)
            fr = Frame(self, modname, None, Summary(None), 0)
            val = tm.unk("undefined:%s.%s" % key)
            imp = m.imports.get(name)
            if imp is not None and imp[0] == "from" and not any(nm == name for nm, _v, _s in m.assign_nodes) and imp[1] in self.prog.modules:
                # `from package.module import NAME`: the name is that module's constant
                val = self.const(imp[1], imp[2])
                self._const_cache[key] = val
                return val
            for nm, vnode, st in m.assign_nodes:
                if nm == name:
                    # names the value depends on are resolved lazily through const()
                    val = self.expr(vnode, fr)
            # a table that is filled by module-level statements (a `for` loop, `TABLE[k] = v`, TABLE.update(...)) after its
            # first assignment: those statements are evaluated in order on top of the initial value
            fillers = _toplevel_fillers(m.tree, name)
            if fillers and isinstance(val, (dict, list)):
                try:
                    fr.env[name] = val
                    for st in fillers:
                        if self.stmt(st, fr):
                            break
                    val = fr.env.get(name, val)
                except (AnalysisError, _ExprRaise, _Break, _Continue, RecursionError):
                    val = tm.unk("module-level construction of %s.%s not modelled" % key)
            # module-level mutation by functions (`global X`) makes X non-constant
            if self._is_global_mutated(m, name):
                val = T("global", (modname + "." + name,), tm.tyof(val) if val is not None else tm.ANY)
        finally:
            self._const_busy.discard(key)
        self._const_cache[key] = val
        return val

    def _is_global_mutated(self, m, name):
        for f in list(m.functions.values()):
            for n in ast.walk(f.node):
                if isinstance(n, ast.Global) and name in n.names:
                    return True
        return False

    # ------------------------------------------------------------------ functions
    def run(self, fi, args=None, depth=0, use_defaults=False, closure_env=None):
        """Summarise function fi.  args: dict param -> value.  Missing params become symbolic, or -- with
        use_defaults=True -- take their declared default when they have one."""
        summary = Summary(fi)
        if depth == 0:
            self._rec_budget = 400
        fr = Frame(self, fi.module.name, fi, summary, depth)
        if closure_env:
            fr.env.update(closure_env)  # free variables of a nested function: what the enclosing function had bound
        a = fi.node.args
        allp = a.posonlyargs + a.args
        defaults = [None] * (len(allp) - len(a.defaults)) + list(a.defaults)
        args = dict(args or {})
        for p, d in zip(allp, defaults):
            if p.arg in args:
                fr.env[p.arg] = args[p.arg]
            elif use_defaults and d is not None:
                fr.env[p.arg] = self.default_of(fi, p.arg)[1]
            else:
                fr.env[p.arg] = tm.param(p.arg, ann_type(p.annotation))
        for p, d in zip(a.kwonlyargs, a.kw_defaults):
            if p.arg in args:
                fr.env[p.arg] = args[p.arg]
            elif use_defaults and d is not None:
                fr.env[p.arg] = self.default_of(fi, p.arg)[1]
            else:
                fr.env[p.arg] = tm.param(p.arg, ann_type(p.annotation))
        if a.vararg:
            fr.env[a.vararg.arg] = args.get(a.vararg.arg, tm.param("*" + a.vararg.arg, tm.TUPLE))
        if a.kwarg:
            fr.env[a.kwarg.arg] = args.get(a.kwarg.arg, tm.param("**" + a.kwarg.arg, tm.DICT))
        if closure_env is None and not getattr(self, "_raw_run", False) and depth == 0 and getattr(fi.node, "decorator_list", None) and fi.cls is None:
            deco = self._package_decorators(fi, fr)
            if deco:
                # the function as callers see it: decorator(f) applied to the (symbolic) arguments
                fv = T("fnraw", (fi.qualname,))
                for d in reversed(deco):
                    fv = self.call_value(d, [fv], {}, fi.node, fr)
                pos = [fr.env[p.arg] for p in allp]
                kwv = {p.arg: fr.env[p.arg] for p in a.kwonlyargs}
                val = self.call_value(fv, pos, kwv, fi.node, fr)
                summary.exits.append(Exit(fr.guard, "return", val, fi.node, fi.qualname, facts=fr.facts))
                summary.env = fr.env
                return summary
        fr.is_gen = _is_generator(fi.node)
        if fr.is_gen:
            fr.env["__yield__"] = []  # a generator is summarised by the list of values it yields, in order
        self._stack.append(fi.qualname)
        prev_cls = self._cur_cls
        prev_dyn = self.__dict__.get("_dyn_cls")
        if getattr(fi, "dyn_cls", None) is not None:
            self._dyn_cls = fi.dyn_cls
        if fi.cls:
            self._cur_cls = (fi.module.name, fi.cls)
            dyn = self.__dict__.get("_dyn_cls")
            if dyn is not None and dyn != self._cur_cls and self._is_base_of(self._cur_cls, dyn):
                self._cur_cls = dyn  # a method inherited by the object under analysis: `self` is still an object of that class
        try:
            done = self.block(fi.node.body, fr)
            if not done:
                summary.exits.append(Exit(fr.guard, "return", fr.env.get("__yield__") if fr.is_gen else None, fi.node, fi.qualname, facts=fr.facts))
        finally:
            self._stack.pop()
            self._cur_cls = prev_cls
            self._dyn_cls = prev_dyn
        summary.env = fr.env
        return summary

    def _annotated_arity(self, v):
        """n when `v` is the opaque result of a package function annotated `-> Tuple[T1, ..., Tn]` (fixed length), else None."""
        if not (isinstance(v, T) and v.op == "app" and isinstance(v.args[0], str) and v.args[0].startswith(self.prog.pkgname + ".") and tm.tyof(v) == tm.TUPLE):
            return None
        cache = self.__dict__.setdefault("_arity_cache", {})
        q = v.args[0]
        if q not in cache:
            cache[q] = None
            try:
                fi = self.prog.function(q)
                r = fi.node.returns
                if isinstance(r, ast.Subscript) and (dotted_parts(r.value) or [""])[-1] in ("Tuple", "tuple") and isinstance(r.slice, ast.Tuple) and \
                        not any(isinstance(x, ast.Constant) and x.value is Ellipsis for x in r.slice.elts):
                    cache[q] = len(r.slice.elts)
            except Exception:
                pass
        return cache[q]

    def _is_base_of(self, base, cls, depth=0):
        """Is package class `base` (module name, class name) among the package base classes of `cls`?"""
        m = self.prog.modules.get(cls[0])
        node = m.classnodes.get(cls[1]) if m is not None else None
        if node is None or depth > 5:
            return False
        for b in node.bases:
            r = self.prog.resolve_chain(cls[0], dotted_parts(b) or [])
            if r is not None and r[0] == "class":
                if (r[1].name, r[2]) == tuple(base) or self._is_base_of(base, (r[1].name, r[2]), depth + 1):
                    return True
        return False

    def _default_frame(self, fi, d):
        """Where a default expression is evaluated: the module, and for a method also the names the class body has assigned."""
        fr = Frame(self, fi.module.name, None, Summary(None), 0)
        cnode = fi.module.classnodes.get(fi.cls) if fi.cls else None
        if cnode is not None:
            used = {n.id for n in ast.walk(d) if isinstance(n, ast.Name)}
            for st in cnode.body:
                if getattr(st, "lineno", 0) >= fi.node.lineno:
                    break
                if isinstance(st, ast.Assign) and len(st.targets) == 1 and isinstance(st.targets[0], ast.Name) and st.targets[0].id in used:
                    fr.env[st.targets[0].id] = self.expr(st.value, fr)
        return fr

    def default_of(self, fi, pname):
        a = fi.node.args
        allp = a.posonlyargs + a.args
        defaults = [None] * (len(allp) - len(a.defaults)) + list(a.defaults)
        for p, d in zip(allp, defaults):
            if p.arg == pname and d is not None:
                return True, self.expr(d, self._default_frame(fi, d))
        for p, d in zip(a.kwonlyargs, a.kw_defaults):
            if p.arg == pname and d is not None:
                return True, self.expr(d, self._default_frame(fi, d))
        return False, None

    def bind_call(self, fi, pos, kw, skip_self=False):
        """Map call arguments to parameter names, filling defaults. Returns dict or None."""
        a = fi.node.args
        allp = [p.arg for p in a.posonlyargs + a.args]
        if skip_self and allp and allp[0] in ("self", "cls"):
            allp = allp[1:]
        bound = {}
        if len(pos) > len(allp):
            if not a.vararg:
                return None
            bound[a.vararg.arg] = tuple(pos[len(allp):])
            pos = pos[: len(allp)]
        for n, v in zip(allp, pos):
            bound[n] = v
        for k, v in kw.items():
            if k in bound:
                return None
            if k in allp or k in [p.arg for p in a.kwonlyargs]:
                bound[k] = v
            elif a.kwarg:
                bound.setdefault(a.kwarg.arg, {})[k] = v
            else:
                return None
        for n in allp + [p.arg for p in a.kwonlyargs]:
            if n not in bound:
                ok, d = self.default_of(fi, n)
                if not ok:
                    return None
                bound[n] = d
        if a.kwarg and a.kwarg.arg not in bound:
            bound[a.kwarg.arg] = {}  # no extra keyword arguments were passed
        if a.vararg and a.vararg.arg not in bound:
            bound[a.vararg.arg] = ()
        return bound

    # ------------------------------------------------------------------ statements
    def block(self, stmts, fr):
        """Execute statements; True if every flow through the block has exited."""
        for st in stmts:
            try:
                if self.stmt(st, fr):
                    return True
            except _ExprRaise as ex:
                # an expression of this statement definitely raises (e.g. int("a"), a failed constant lookup)
                self.add_exit(fr, "raise", None, st, exc=ex.exc)
                return True
        return False

    def add_exit(self, fr, kind, value, node, exc=None):
        fr.summary.exits.append(Exit(fr.guard, kind, value, node, fr.fi.qualname if fr.fi else "<module>", exc,
                                     facts=fr.facts))

    def stmt(self, st, fr):
        if isinstance(st, ast.Return):
            v = self.expr(st.value, fr) if st.value is not None else None
            if getattr(fr, "is_gen", False):
                v = fr.env.get("__yield__")  # `return` in a generator ends the sequence
            self.add_exit(fr, "return", v, st)
            return True
        if isinstance(st, ast.Expr) and isinstance(st.value, (ast.Yield, ast.YieldFrom)) and getattr(fr, "is_gen", False):
            cur = fr.env.get("__yield__", [])
            if isinstance(st.value, ast.Yield):
                item = self.expr(st.value.value, fr) if st.value.value is not None else None
                if isinstance(cur, list):
                    cur.append(item)
                else:
                    fr.env["__yield__"] = tm.lcat([cur, [item]])
            else:
                sub = self.expr(st.value.value, fr)
                seq0 = _concrete_iter(sub) if not isinstance(sub, (dict, str)) else None
                if isinstance(cur, list) and seq0 is not None:
                    cur.extend(seq0)
                else:
                    fr.env["__yield__"] = tm.lcat([cur, sub])
            return False
        if isinstance(st, ast.Raise):
            exc = "Exception"
            msg = None
            if st.exc is not None:
                e = st.exc
                if isinstance(e, ast.Call):
                    exc = ".".join(dotted_parts(e.func) or ["?"])
                    if e.args:
                        msg = self.expr(e.args[0], fr)
                else:
                    exc = ".".join(dotted_parts(e) or ["?"])
            self.add_exit(fr, "raise", msg, st, exc=exc)
            return True
        if isinstance(st, ast.Assert):
            c = self.decide(self.truth_expr(st.test, fr))
            if c is True:
                return False
            f2 = fr.fork(tm.lnot(c))
            f2.summary.exits.append(Exit(f2.guard, "raise", self.expr(st.msg, fr) if st.msg is not None else None, st,
                                         fr.fi.qualname if fr.fi else "<module>", exc="AssertionError",
                                         facts=fr.facts))
            if c is False:
                return True
            fr.facts.append(c)
            fr.facts.extend(_fact_closure(c))
            return False
        if isinstance(st, ast.Assign):
            v = self.expr(st.value, fr)
            for t in st.targets:
                self.assign(t, v, fr)
            return False
        if isinstance(st, ast.AnnAssign):
            if st.value is not None:
                self.assign(st.target, self.expr(st.value, fr), fr)
            return False
        if isinstance(st, ast.AugAssign):
            cur = self.expr(_as_load(st.target), fr)
            v = self.binop(st.op, cur, self.expr(st.value, fr), st)
            self.assign(st.target, v, fr)
            return False
        if isinstance(st, ast.Expr):
            self.expr_stmt(st.value, fr)
            return False
        if isinstance(st, ast.If):
            return self.if_(st, fr)
        if isinstance(st, ast.For):
            return self.for_(st, fr)
        if isinstance(st, ast.While):
            return self.while_(st, fr)
        if isinstance(st, ast.Try):
            return self.try_(st, fr)
        if isinstance(st, ast.With) and len(st.items) == 1 and isinstance(st.items[0].context_expr, ast.Call) and \
                (dotted_parts(st.items[0].context_expr.func) or [""])[-1] == "suppress" and st.items[0].optional_vars is None:
            # with contextlib.suppress(E1, E2): body   is   try: body / except (E1, E2): pass
            call = st.items[0].context_expr
            handler = ast.ExceptHandler(type=ast.Tuple(elts=list(call.args), ctx=ast.Load()) if len(call.args) != 1 else call.args[0], name=None, body=[ast.Pass()])
            tr = ast.Try(body=st.body, handlers=[handler], orelse=[], finalbody=[])
            ast.copy_location(tr, st)
            ast.copy_location(handler, st)
            ast.fix_missing_locations(tr)
            return self.try_(tr, fr)
        if isinstance(st, ast.With):
            exits_ = []
            for it in st.items:
                v = self.expr(it.context_expr, fr)
                entered = T("enter", (v,))
                if isinstance(v, _BytesIO) or (isinstance(v, (list, tuple)) and not (v and isinstance(v[0], str) and str(v[0]).startswith("#"))):
                    entered = v  # a buffer is its own context manager; a scripted directory listing (os.scandir) likewise
                elif isinstance(v, _Obj) and not v.tuple_like:
                    r_ = self.dunder(v, "enter", [], st, fr)
                    if r_ is not NotImplemented:
                        entered = r_
                        exits_.append(v)
                if it.optional_vars is not None:
                    self.assign(it.optional_vars, entered, fr)
            done_ = self.block(st.body, fr)
            if not done_:
                for v in reversed(exits_):
                    self.dunder(v, "exit", [None, None, None], st, fr)  # normal completion: __exit__(None, None, None)
            return done_
        if isinstance(st, (ast.Pass, ast.Global, ast.Nonlocal, ast.Import, ast.ImportFrom)):
            return False
        if isinstance(st, ast.FunctionDef):
            mod = fr.fi.module if fr.fi is not None else self.prog.module(fr.modname)
            fi2 = FunctionInfo(mod, st, None)
            fi2.qualname = (fr.fi.qualname if fr.fi is not None else fr.modname) + ".<locals>." + st.name
            fr.env[st.name] = _Closure(fi2, fr.env)
            return False
        if isinstance(st, ast.Break):
            raise _Break()
        if isinstance(st, ast.Continue):
            raise _Continue()
        if isinstance(st, ast.Delete):
            return False
        if isinstance(st, ast.ClassDef):
            fr.env[st.name] = T("localclass", (st.name,))
            return False
        raise AnalysisError("statement kind not modelled: %s at %s:%d" % (type(st).__name__, fr.modname, st.lineno))

    def assign(self, t, v, fr):
        if isinstance(v, _Iter) and isinstance(t, (ast.Tuple, ast.List)):
            v = tuple(_concrete_iter(v))  # a, b = <iterator object>: unpacking walks it to the end
        if isinstance(t, ast.Name):
            fr.env[t.id] = v
        elif isinstance(t, (ast.Tuple, ast.List)) and any(isinstance(e, ast.Starred) for e in t.elts):
            # a, *rest, z = seq: positions before / after the starred name, the slice in between
            k = [i for i, e in enumerate(t.elts) if isinstance(e, ast.Starred)][0]
            after = len(t.elts) - k - 1
            seq0 = _concrete_iter(v) if not isinstance(v, (str, bytes, dict)) else None
            if seq0 is not None and len(seq0) >= len(t.elts) - 1:
                for e, x in zip(t.elts[:k], seq0[:k]):
                    self.assign(e, x, fr)
                self.assign(t.elts[k].value, list(seq0[k:len(seq0) - after]), fr)
                for e, x in zip(t.elts[k + 1:], seq0[len(seq0) - after:]):
                    self.assign(e, x, fr)
            else:
                for i, e in enumerate(t.elts[:k]):
                    self.assign(e, tm.idx(v, i), fr)
                self.assign(t.elts[k].value, tm.slc(v, k, -after if after else None), fr)
                for j, e in enumerate(t.elts[k + 1:]):
                    self.assign(e, tm.idx(v, -(after - j)), fr)
        elif isinstance(t, (ast.Tuple, ast.List)):
            n = len(t.elts)
            if isinstance(v, _Obj) and v.tuple_like:
                v = tuple(v.fields.values())
            elif isinstance(v, _Obj):
                items = self.obj_iter(v, t, fr)
                if items is not None:
                    v = tuple(items)
            if isinstance(v, (tuple, list)) and len(v) == n:
                for e, x in zip(t.elts, v):
                    self.assign(e, x, fr)
            elif isinstance(v, tuple) and v and v[0] in ("#tuple", "#list") and len(v) - 1 == n:
                for e, x in zip(t.elts, v[1:]):
                    self.assign(e, x, fr)
            else:
                for i, e in enumerate(t.elts):
                    self.assign(e, self.proj(v, i, n), fr)
        elif isinstance(t, ast.Subscript):
            base = self.expr(t.value, fr)
            key = self.expr(t.slice, fr)
            if isinstance(base, dict) and tm.is_conc(key) and not isinstance(key, (list, dict)):
                base[key] = v  # aliasing by reference inside env
            elif isinstance(base, list) and isinstance(key, int) and -len(base) <= key < len(base):
                base[key] = v
            else:
                nm = _root_name(t)
                if nm:
                    fr.env[nm] = T("store", (fr.env.get(nm), key, tm._fz(v)), tm.tyof(fr.env.get(nm)))
        elif isinstance(t, ast.Attribute):
            parts = dotted_parts(t)
            if parts and parts[0] in fr.env and isinstance(fr.env[parts[0]], _Obj):
                o = fr.env[parts[0]]
                for a in parts[1:-1]:
                    o = self.getattr_value(o, a)
                if isinstance(o, _Obj):
                    if o.tuple_like:
                        raise _ExprRaise("AttributeError")
                    o.fields[parts[-1]] = v
                    return
            if parts:
                fr.env[".".join(parts)] = v
        elif isinstance(t, ast.Starred):
            self.assign(t.value, v, fr)

    def proj(self, v, i, n=None):
        if isinstance(v, T) and v.op == "ite":
            return tm.ite(v.args[0], self.proj(_unfz(v.args[1]), i, n), self.proj(_unfz(v.args[2]), i, n))
        if isinstance(v, (tuple, list)) and not (v and v[0] in ("#tuple", "#list")) and i < len(v):
            return v[i]
        if isinstance(v, tuple) and v and v[0] in ("#tuple", "#list"):
            return v[1 + i]
        return T("proj", (v, i), tm.ANY)

    def expr_stmt(self, e, fr):
        # mutating method calls on local containers
        if isinstance(e, ast.Call) and isinstance(e.func, ast.Attribute) and isinstance(self._peek_value(e.func.value, fr), _Obj):
            self.expr(e, fr)  # a method of a package object that happens to be called append / update / pop / ...
            return
        if isinstance(e, ast.Call) and isinstance(e.func, ast.Attribute):
            meth = e.func.attr
            recv_node = e.func.value
            if meth in ("reverse", "sort") and not e.args and not (meth == "sort" and e.keywords):
                recv0 = self.expr(recv_node, fr)
                if isinstance(recv_node, ast.Name) and meth == "reverse" and (isinstance(recv0, bytes) or tm.tyof(recv0) == tm.BYTES):
                    fr.env[recv_node.id] = recv0[::-1] if isinstance(recv0, bytes) else T("rev", (tm._fz(recv0),), tm.BYTES)
                    return
                if isinstance(recv0, list) or (isinstance(recv0, T) and tm.tyof(recv0) in (tm.LIST, tm.ANY) and isinstance(recv_node, ast.Name)):
                    # in-place list.reverse() / list.sort(): the name now holds the reversed / sorted list
                    if isinstance(recv0, list) and meth == "reverse":
                        recv0.reverse()
                    elif isinstance(recv_node, ast.Name):
                        fr.env[recv_node.id] = T("rev", (tm._fz(recv0),), tm.LIST) if meth == "reverse" else T("mutated", ("sort", tm._fz(recv0)), tm.LIST)
                    else:
                        raise AnalysisError("in-place %s() of a container that is not a plain local" % meth)
                    return
            if meth in ("append", "extend", "update", "insert", "pop", "remove", "clear", "popleft", "appendleft"):
                recv = self.expr(recv_node, fr)
                args = [self.expr(a, fr) for a in e.args]
                kw = {k.arg: self.expr(k.value, fr) for k in e.keywords if k.arg}
                for k in e.keywords:
                    if k.arg is None:
                        v = self.expr(k.value, fr)
                        if isinstance(v, dict) and all(isinstance(x, str) for x in v):
                            kw.update(v)
                        else:
                            kw["**"] = v
                fr.summary.calls.append(("method:" + meth, [recv] + args, kw, e, tuple(fr.guard), tuple(fr.facts), dict(fr.iters)))
                if meth == "append" and isinstance(recv, list):
                    recv.append(args[0])
                    return
                if meth == "insert" and isinstance(recv, list) and len(args) == 2 and isinstance(args[0], int) and not isinstance(args[0], bool):
                    recv.insert(args[0], args[1])
                    return
                if meth == "extend" and isinstance(recv, list) and isinstance(args[0], list):
                    recv.extend(args[0])
                    return
                if meth == "update" and isinstance(recv, dict) and args and isinstance(args[0], dict):
                    recv.update(args[0])
                    return
                if meth == "update" and isinstance(recv, dict) and not args:
                    recv.update(kw)
                    return
                nm = _root_name(recv_node) if not isinstance(recv_node, ast.Name) else recv_node.id
                if isinstance(recv_node, ast.Name) and (isinstance(recv, bytes) or tm.tyof(recv) == tm.BYTES) and meth in ("append", "extend") and args:
                    # a bytearray: append(x) adds the byte x, extend(b) adds the bytes b
                    if meth == "append":
                        piece = bytes([args[0]]) if isinstance(args[0], int) and 0 <= args[0] < 256 else tm.i2b(args[0], 1, "big")
                    else:
                        piece = args[0]
                    fr.env[nm] = tm.cat([recv, piece])
                    return
                if isinstance(recv_node, ast.Name):
                    if meth == "append":
                        fr.env[nm] = tm.lcat([recv, [args[0]]])
                    elif meth == "extend":
                        fr.env[nm] = tm.lcat([recv, args[0]])
                    elif meth == "update":
                        fr.env[nm] = T("dictupdate", (tm._fz(recv), tm._fz(args[0]) if args else tm.freeze(kw)), tm.DICT)
                    else:
                        fr.env[nm] = T("mutated", (meth, tm._fz(recv)) + tuple(tm._fz(a) for a in args), tm.tyof(recv))
                elif isinstance(recv_node, ast.Attribute):
                    parts = dotted_parts(recv_node)
                    if parts:
                        key = ".".join(parts)
                        fr.env[key] = T("mutated", (meth, tm._fz(recv)) + tuple(tm._fz(a) for a in args), tm.tyof(recv))
                elif isinstance(recv_node, ast.Subscript) and nm and nm in fr.env:
                    fr.env[nm] = T("mutated", (meth, tm._fz(fr.env[nm]), tm._fz(recv)) + tuple(tm._fz(a) for a in args),
                                   tm.tyof(fr.env[nm]))
                return
        self.expr(e, fr)

    def _peek_value(self, node, fr):
        """The value a plain name / attribute chain of names denotes, without evaluating anything else (None otherwise)."""
        parts = dotted_parts(node)
        if not parts or parts[0] not in fr.env:
            return None
        v = fr.env[parts[0]]
        for a in parts[1:]:
            if not isinstance(v, _Obj) or a not in v.fields:
                return None
            v = v.fields[a]
        return v

    def decide_in(self, c, fr):
        """decide(), then the facts of the path: a condition that (or whose negation) the path has already established."""
        c = self.decide(c)
        if isinstance(c, T) and fr.facts:
            n = tm.lnot(c)
            for f in fr.facts:
                if isinstance(f, T):
                    if f == c or tm.veq(f, c):
                        return True
                    if f == n or tm.veq(f, n):
                        return False
        if isinstance(c, T):
            r = self._by_interval(c, fr.facts)
            if r is not None:
                return r
        return c

    def _by_interval(self, c, facts, depth=0):
        """A comparison of an integer term with a constant, decided by the interval the term is confined to (a table index, a
        byte, a value reduced mod m, ...): `0 <= wordlist.index(w) < 2048` is true whatever the word."""
        from . import ival
        if depth > 6 or not isinstance(c, T):
            return None
        if c.op in ("land", "lor"):
            rs = [self._by_interval(x, facts, depth + 1) if isinstance(x, T) else (x if isinstance(x, bool) else None) for x in c.args]
            if c.op == "land":
                return False if any(r is False for r in rs) else (True if all(r is True for r in rs) else None)
            return True if any(r is True for r in rs) else (False if all(r is False for r in rs) else None)
        if c.op == "not":
            r = self._by_interval(c.args[0], facts, depth + 1)
            return None if r is None else (not r)
        if c.op != "cmp" or c.args[0] not in ("lt", "le", "gt", "ge", "eq", "ne"):
            return None
        opn, a, b = c.args
        flip = {"lt": "gt", "le": "ge", "gt": "lt", "ge": "le", "eq": "eq", "ne": "ne"}
        if isinstance(a, int) and not isinstance(a, bool) and isinstance(b, T):
            opn, a, b = flip[opn], b, a
        if not (isinstance(a, T) and isinstance(b, int) and not isinstance(b, bool)) or tm.tyof(a) not in (tm.INT, tm.ANY):
            return None
        if a.op not in ("m:index", "lookup", "bor", "bxor", "shl", "shr", "band", "mod", "idx", "b2i", "add", "mul", "floordiv", "ite"):
            return None
        facts = list(facts)
        rf = getattr(self, "range_fn", None)
        if rf is not None:
            # ranges the obligation states for opaque integer sources (e.g. an index into a table whose size it has checked)
            seen_ = set()
            for t_ in tm.subterms(a):
                if isinstance(t_, T) and t_ not in seen_:
                    seen_.add(t_)
                    r_ = rf(t_)
                    if r_ is not None:
                        facts += [tm.cmp("ge", t_, r_[0]), tm.cmp("le", t_, r_[1])]
        try:
            lo, hi = ival.interval(a, facts)
        except RecursionError:
            return None
        if opn == "lt":
            return True if hi is not None and hi < b else (False if lo is not None and lo >= b else None)
        if opn == "le":
            return True if hi is not None and hi <= b else (False if lo is not None and lo > b else None)
        if opn == "gt":
            return True if lo is not None and lo > b else (False if hi is not None and hi <= b else None)
        if opn == "ge":
            return True if lo is not None and lo >= b else (False if hi is not None and hi < b else None)
        if opn == "eq":
            return False if (lo is not None and lo > b) or (hi is not None and hi < b) else (True if lo == hi == b else None)
        if opn == "ne":
            return True if (lo is not None and lo > b) or (hi is not None and hi < b) else (False if lo == hi == b else None)
        return None

    def under_facts(self, v, fr):
        """A value that is a choice ite(c, a, b) on a condition the path has already established is the chosen branch."""
        n = 0
        while isinstance(v, T) and v.op == "ite" and fr.facts and n < 8:
            c = self.decide_in(v.args[0], fr)
            if c is True:
                v = _unfz(v.args[1]) if not isinstance(v.args[1], (T, _Obj)) else v.args[1]
            elif c is False:
                v = _unfz(v.args[2]) if not isinstance(v.args[2], (T, _Obj)) else v.args[2]
            else:
                break
            n += 1
        return v

    def if_(self, st, fr):
        c = self.decide_in(self.truth_expr(st.test, fr), fr)
        if c is True:
            return self.block(st.body, fr)
        if c is False:
            return self.block(st.orelse, fr)
        f1 = fr.fork(c)
        f1.facts.append(c)
        f1.facts.extend(_fact_closure(c))
        f2 = fr.fork(tm.lnot(c))
        f2.facts.append(tm.lnot(c))
        f2.facts.extend(_fact_closure(tm.lnot(c)))
        brk = None
        try:
            t1 = self.block(st.body, f1)
        except (_Break, _Continue) as ex:
            brk = ex
            t1 = True
        try:
            t2 = self.block(st.orelse, f2)
        except (_Break, _Continue) as ex:
            brk = ex
            t2 = True
        ctl = brk is not None or f1.env.get("__loopctl__") or f2.env.get("__loopctl__")
        if t1 and t2:
            if ctl:
                fr.env["__loopctl__"] = True
            return brk is None
        pre_env = fr.env
        if t1:
            fr.env = f2.env
            fr.facts = f2.facts
            self._rebind_objects(pre_env, fr.env)
            if ctl:
                fr.env["__loopctl__"] = True
            return False
        if t2:
            fr.env = f1.env
            fr.facts = f1.facts
            self._rebind_objects(pre_env, fr.env)
            if ctl:
                fr.env["__loopctl__"] = True
            return False
        # merge
        env = {}
        for k in list(f1.env.keys()) + [k for k in f2.env.keys() if k not in f1.env]:
            a = f1.env.get(k, T("undef", (k,)))
            b = f2.env.get(k, T("undef", (k,)))
            if isinstance(a, _Obj) and isinstance(b, _Obj) and not a.tuple_like and (a.modname, a.cls) == (b.modname, b.cls):
                # one object seen on two paths: its state is the field-wise join
                a.fields = {f_: (a.fields[f_] if f_ in a.fields and f_ in b.fields and tm.veq(a.fields[f_], b.fields[f_]) else
                                 self.merge(c, a.fields.get(f_, T("undef", (f_,))), b.fields.get(f_, T("undef", (f_,))))) for f_ in list(a.fields) + [x for x in b.fields if x not in a.fields]}
                env[k] = a
                continue
            env[k] = a if tm.veq(a, b) else self.merge(c, a, b)
        if ctl:
            env["__loopctl__"] = True
        fr.env = env
        self._rebind_objects(pre_env, fr.env)
        return False

    @staticmethod
    def _rebind_objects(pre_env, new_env):
        """Objects are heap cells: whoever created one (a caller, a constructor frame) holds the cell that existed before the
        fork. After the join the surviving state is moved INTO those cells, and the names point at them again."""
        for k, o in pre_env.items():
            if isinstance(o, _Obj) and not o.tuple_like:
                a = new_env.get(k)
                if isinstance(a, _Obj) and a is not o and (a.modname, a.cls) == (o.modname, o.cls):
                    o.fields = a.fields
                    new_env[k] = o
            elif isinstance(o, _BytesIO):
                a = new_env.get(k)
                if isinstance(a, _BytesIO) and a is not o:
                    o.buf, o.pos = a.buf, a.pos
                    new_env[k] = o

    def merge(self, c, a, b):
        if isinstance(a, dict) and isinstance(b, dict) and a.keys() == b.keys():
            return {k: (a[k] if tm.veq(a[k], b[k]) else self.merge(c, a[k], b[k])) for k in a}
        if isinstance(a, list) and isinstance(b, list) and len(a) == len(b):
            return [x if tm.veq(x, y) else self.merge(c, x, y) for x, y in zip(a, b)]
        return tm.ite(c, a, b)

    def try_(self, st, fr):
        tryid = len(fr.summary.exits)
        n0 = len(fr.summary.exits)
        handled = []
        for h in st.handlers:
            names = []
            if h.type is None:
                names = ["BaseException"]
            elif isinstance(h.type, ast.Tuple):
                names = [".".join(dotted_parts(e) or ["?"]) for e in h.type.elts]
            else:
                names = [".".join(dotted_parts(h.type) or ["?"])]
            if h.type is not None and not isinstance(h.type, ast.Tuple):
                p0_ = dotted_parts(h.type)
                if p0_ and (p0_[0] in fr.env or len(p0_) > 1) and not (len(p0_) == 1 and p0_[0][:1].isupper()):
                    # `except self.rejections:` / `except ERRORS:` -- the handler's exception classes are a value: evaluated
                    try:
                        v_ = self.expr(h.type, fr)
                    except Exception:
                        v_ = None
                    vs_ = list(v_) if isinstance(v_, (tuple, list)) else [v_]
                    if vs_ and all(isinstance(x_, T) and x_.op == "ext" for x_ in vs_):
                        names = [x_.args[0][9:] if x_.args[0].startswith("builtins.") else x_.args[0] for x_ in vs_]
            handled.append((h, names))
        fr.trystack.append([n for _, ns in handled for n in ns])
        pre_env = clone(fr.env)
        pre_facts = list(fr.facts)
        marks0 = (len(fr.summary.calls), len(fr.summary.hazards))
        olog0 = len(self._opaque_log)
        body_done = self.block(st.body, fr)
        # AssertionError comes only from assert statements and explicit raises: when every call of the body was inlined (its
        # explicit exits are handled below) or its result is scripted by the obligation, no implicit AssertionError exists
        unscripted = [a for a in self._opaque_log[olog0:] if not (self.bind and a in self.bind)]
        no_implicit_assert = not unscripted
        # a body that made no call and met no raising primitive (e.g. a lookup that was decided on constants) cannot raise
        # anything beyond its explicit exits: no opaque `except` flow is needed for it
        def _global_ref(n):  # a dotted name rooted in a module-level name (pkg.mod.Class): reading it raises nothing
            parts_ = dotted_parts(n) if isinstance(n, ast.Attribute) else None
            return bool(parts_) and parts_[0] not in pre_env and self.prog.resolve_chain(fr.modname, parts_) is not None
        _value_errors_only = all(nm_ in ("ValueError", "KeyError", "IndexError", "LookupError", "AssertionError", "StopIteration") for _h, ns_ in handled for nm_ in ns_)

        def _type_error_at_most(n):  # len(x), a + b, a * 8 ...: nothing a handler of value errors would catch
            if not _value_errors_only:
                return False
            if isinstance(n, ast.BinOp):
                return isinstance(n.op, (ast.Add, ast.Sub, ast.Mult, ast.BitAnd, ast.BitOr, ast.BitXor))
            return isinstance(n, ast.Call) and isinstance(n.func, ast.Name) and n.func.id == "len" and "len" not in pre_env and self.prog.resolve_chain(fr.modname, ["len"]) is None
        _calls_made = [c_ for c_ in fr.summary.calls[marks0[0]:] if not (_value_errors_only and c_[0] in ("builtins.len", "builtins.isinstance", "builtins.type"))
                       and not (c_[0] == "builtins.getattr" and id(c_[3]) in self.__dict__.get("_inert_calls", ()))]
        body_inert = not _calls_made and len(fr.summary.hazards) == marks0[1] and not any(
            isinstance(n, (ast.Call, ast.BinOp, ast.Attribute, ast.Await, ast.Yield)) and id(n) not in self.__dict__.get("_inert_calls", ()) and not _global_ref(n) and not _type_error_at_most(n)
            for b in st.body for n in ast.walk(b))
        if os.environ.get("SA_DEBUG_TRY"):
            print("TRY", fr.modname, st.lineno, "calls", len(fr.summary.calls) - marks0[0], [c[0] for c in fr.summary.calls[marks0[0]:]], "hazards", len(fr.summary.hazards) - marks0[1], "inert", body_inert,
                  [type(n).__name__ + ":" + ast.unparse(n)[:40] for b in st.body for n in ast.walk(b) if isinstance(n, (ast.Call, ast.BinOp, ast.Attribute, ast.Await, ast.Yield)) and id(n) not in self.__dict__.get("_inert_calls", ()) and not _global_ref(n) and not _type_error_at_most(n)])
        fr.trystack.pop()
        # implicit errors of the body (a failing lookup, an index past the end) that a handler of THIS statement names are
        # caught here: they are no longer hazards of the function (the handler flow below stands for them)
        hz = fr.summary.hazards
        kept = [h_ for h_ in hz[marks0[1]:] if not any(_exc_matches(h_[0], ns) for _h, ns in handled)]
        if len(kept) != len(hz) - marks0[1]:
            del hz[marks0[1]:]
            hz.extend(kept)
            body_inert = False
        if not body_done and st.orelse:
            body_done = self.block(st.orelse, fr)
        # Explicit raise exits of the body that a handler catches are replaced, in place, by the exits of that handler
        # run under the raise's guard (exits form an ordered decision list, so position matters).  One more handler run
        # under an opaque `except` marker stands for exceptions raised by primitives inside the body.
        results = []
        body_exits = fr.summary.exits[n0:]
        del fr.summary.exits[n0:]
        new_exits = []

        def run_handler(h, names, extra_guard, facts):
            fh = fr.fork()
            fh.guard = list(fr.guard) + list(extra_guard)
            fh.facts = list(pre_facts) + list(facts)  # what held before the try: the body's own facts do not hold where it raised
            fh.env = clone(pre_env)
            for nm in assigned_names(st.body):
                if nm in fr.env and not tm.veq(fr.env.get(nm), pre_env.get(nm)):
                    fh.env[nm] = T("maybe", (tm._fz(pre_env.get(nm, T("undef", (nm,)))), tm._fz(fr.env[nm])))
            if h.name:
                fh.env[h.name] = T("excobj", (tuple(names), _try_key(st)))
            k0 = len(fr.summary.exits)
            try:
                hd = self.block(h.body, fh)
            except (_Break, _Continue):
                hd = True
                fr.env["__loopctl__"] = True
            hexits = fr.summary.exits[k0:]
            del fr.summary.exits[k0:]
            return fh, hd, hexits

        def _transparent(h):
            # `except X: raise`, possibly after logging calls: the exception leaves the statement as it would without it, and
            # exceptions of primitives are not exits of a function without a try statement either
            if not (h.body and isinstance(h.body[-1], ast.Raise) and h.body[-1].exc is None):
                return False
            for b in h.body[:-1]:
                f_ = b.value.func if isinstance(b, ast.Expr) and isinstance(b.value, ast.Call) else None
                root = f_.value if isinstance(f_, ast.Attribute) else f_
                if not (isinstance(root, ast.Name) and root.id in ("log", "logger", "logging", "print", "_log", "LOG")):
                    return False
            return True

        for h, names in handled:
            if body_inert:
                break
            if no_implicit_assert and all(n == "AssertionError" for n in names):
                continue
            if _transparent(h):
                continue
            g = T("except", (tuple(names), _try_key(st)), tm.BOOL)
            fh, hd, hexits = run_handler(h, names, [g], [])
            new_exits.extend(hexits)
            results.append((g, fh, hd))
        fell_through = []  # guards of caught raises whose handler completed normally: control left the statement there
        for ex in body_exits:
            caught = None
            if ex.kind == "raise":
                for h, names in handled:
                    if _exc_matches(ex.exc, names):
                        caught = (h, names)
                        break
            if caught is None:
                if fell_through:
                    # exits form an ordered decision list: a later exit of the body is reached only if none of those raises happened
                    ex = Exit(tuple(ex.guard) + tuple(fell_through), ex.kind, ex.value, ex.node, ex.func, ex.exc, facts=ex.facts)
                new_exits.append(ex)
                continue
            extra = list(ex.guard[len(fr.guard):])
            fh, hd, hexits = run_handler(caught[0], caught[1], extra, [])
            if fell_through:
                hexits = [Exit(tuple(x.guard) + tuple(fell_through), x.kind, x.value, x.node, x.func, x.exc, facts=x.facts) for x in hexits]
            new_exits.extend(hexits)
            results.append((tm.land(extra), fh, hd))
            if not hd:
                # (the guards of handler flows that rejoin stay as they are: the joined values nest in this order anyway)
                g_ = tm.lnot(tm.land(extra))
                if g_ is not True:
                    fell_through.append(g_)
        abrupt_finally = bool(st.finalbody) and any(isinstance(n, (ast.Return, ast.Raise, ast.Break, ast.Continue)) for b in st.finalbody for n in ast.walk(b))
        if abrupt_finally:
            # `finally` runs on every way out of the statement; when it completes abruptly itself (return / raise / break /
            # continue) it REPLACES the pending exit -- `finally: return status` turns every exception the handlers did not
            # catch into a normal return
            replaced = []
            hnames = set()
            for h, _ns in handled:
                hnames |= set(assigned_names(h.body))
            for ex in new_exits:
                ff = fr.fork()
                ff.guard = list(ex.guard)
                ff.facts = list(pre_facts)
                ff.env = clone(pre_env)
                for nm in set(assigned_names(st.body)) | hnames:
                    if nm in fr.env and not tm.veq(fr.env.get(nm), pre_env.get(nm)):
                        ff.env[nm] = T("maybe", (tm._fz(pre_env.get(nm, T("undef", (nm,)))), tm._fz(fr.env[nm])))
                k0 = len(fr.summary.exits)
                try:
                    fdone = self.block(st.finalbody, ff)
                except (_Break, _Continue):
                    fdone = True
                    fr.env["__loopctl__"] = True
                fexits = fr.summary.exits[k0:]
                del fr.summary.exits[k0:]
                replaced.extend(fexits)
                if not fdone:
                    replaced.append(ex)
            # exceptions of primitives inside the body that no handler names: they too run into the finally block
            if not body_inert and not any(n in ("BaseException", "Exception") for _h, ns in handled for n in ns):
                g = T("except", (("<uncaught>",), _try_key(st)), tm.BOOL)
                ff = fr.fork()
                ff.guard = list(fr.guard) + [g]
                ff.facts = list(pre_facts)
                ff.env = clone(pre_env)
                for nm in assigned_names(st.body):
                    if nm in fr.env and not tm.veq(fr.env.get(nm), pre_env.get(nm)):
                        ff.env[nm] = T("maybe", (tm._fz(pre_env.get(nm, T("undef", (nm,)))), tm._fz(fr.env[nm])))
                k0 = len(fr.summary.exits)
                try:
                    self.block(st.finalbody, ff)
                except (_Break, _Continue):
                    fr.env["__loopctl__"] = True
                replaced.extend(fr.summary.exits[k0:])
                del fr.summary.exits[k0:]
            new_exits = replaced
        fr.summary.exits.extend(new_exits)
        live = [(g, fh) for g, fh, hd in results if not hd]
        if st.finalbody:
            # the normal ways through: the body's own completion and every handler that completed
            if not body_done:
                if self.block(st.finalbody, fr):
                    body_done = True
            keep = []
            for g_, fh_ in live:
                k0 = len(fr.summary.exits)
                if abrupt_finally:
                    if self.block(st.finalbody, fh_):
                        continue  # this handler flow ends in the finally block
                keep.append((g_, fh_))
            live = keep
        if body_done and not live:
            return True
        if body_done:
            # only handler flows continue: what follows the try statement runs under "some handler ran"
            gcont = tm.lor([g_ for g_, _f in live])
            if gcont is not True and gcont is not False:
                fr.guard = list(fr.guard) + [gcont]
            g, fh = live[0]
            fr.env = fh.env
            fr.facts = [f for f in fh.facts if all(any(tm.veq(f, x) for x in f2.facts) for g2, f2 in live[1:])]
            for g2, f2 in live[1:]:
                for k in f2.env:
                    if not tm.veq(fr.env.get(k), f2.env[k]):
                        fr.env[k] = self.merge(g2, f2.env[k], fr.env.get(k, T("undef", (k,))))
            return False
        for g, fh in live:
            for k in set(fh.env) | set(fr.env):
                a = fh.env.get(k, T("undef", (k,)))
                b = fr.env.get(k, T("undef", (k,)))
                if not tm.veq(a, b):
                    fr.env[k] = self.merge(g, a, b)
        if live:
            # flows that went through a handler rejoin here: only facts common to all of them survive
            fr.facts = [f for f in fr.facts if all(any(tm.veq(f, x) for x in fh.facts) for g, fh in live)]
        return False

    # ---- loops
    def _fuse_generator_loop(self, st, fr):
        """A `for` loop over a call of a generator function of the same module (or a generator method of the same object) is
        evaluated as the one loop the pair amounts to (sa/fuse.py); None when the pair is not of the fusable shape."""
        from .fuse import fuse_loop, fuse_zip_range_loop, zip_range_parts
        call = st.iter
        if isinstance(call, ast.Name) and fr.fi is not None and call.id in fr.env:
            # `items = zip(range(n), gen(...))` immediately before `for ... in items:` (the name is used nowhere else)
            uses = [n for n in ast.walk(fr.fi.node) if isinstance(n, ast.Name) and n.id == call.id]
            prev = self._stmt_before(fr.fi.node, st)
            if len(uses) == 2 and isinstance(prev, ast.Assign) and len(prev.targets) == 1 and isinstance(prev.targets[0], ast.Name) and prev.targets[0].id == call.id and \
                    isinstance(prev.value, ast.Call):
                st = ast.copy_location(ast.For(target=st.target, iter=prev.value, body=st.body, orelse=st.orelse), st)
                call = st.iter
        if not isinstance(call, ast.Call):
            return None
        zipped = zip_range_parts(call)
        if zipped is not None:
            call = zipped[1]
        parts = dotted_parts(call.func)
        if not parts or parts[0] in fr.env and not (len(parts) == 2 and isinstance(fr.env.get(parts[0]), (_Obj, T)) and self._cur_cls):
            return None
        fi, self_expr = None, None
        if parts[0] in fr.env:
            # obj.method(...) where obj is the object whose method is being evaluated (`self`)
            recv = fr.env[parts[0]]
            mod_cls = (recv.modname, recv.cls) if isinstance(recv, _Obj) else (self._cur_cls if isinstance(recv, T) and recv.op == "param" and fr.fi is not None and fr.fi.cls and
                                                                               fr.fi.params()[:1] == [parts[0]] else None)
            if mod_cls is None:
                return None
            meths, _a = self.class_members(*mod_cls)
            fi = meths.get(parts[1])
            if fi is None or {ast.unparse(d) for d in fi.node.decorator_list} & {"staticmethod", "classmethod"}:
                return None
            self_expr = call.func.value
        else:
            r = self.prog.lookup(fr.modname, parts[0]) if len(parts) == 1 else self.prog.resolve_chain(fr.modname, parts)
            if not r or r[0] != "func" or r[1].cls:
                return None
            fi = r[1]
        q = self.policy.alias.get(fi.qualname, fi.qualname)
        if fi.module.name != fr.modname or q in self.policy.opaque or (self.policy.opaque_pred and self.policy.opaque_pred(q)) or fi.qualname in self._stack:
            return None
        if fi.node.decorator_list and self_expr is None:
            return None
        self._fuse_n = getattr(self, "_fuse_n", 0) + 1
        if zipped is not None:
            return fuse_zip_range_loop(st, fi.node, "__%s%d_" % (fi.node.name, self._fuse_n), self_expr=self_expr)
        return fuse_loop(st, fi.node, "__%s%d_" % (fi.node.name, self._fuse_n), self_expr=self_expr)

    @staticmethod
    def _stmt_before(fnode, st):
        """The statement directly before `st` in the block that holds it (None when `st` opens its block)."""
        for n in ast.walk(fnode):
            for fld in ("body", "orelse", "finalbody"):
                blk = getattr(n, fld, None)
                if isinstance(blk, list) and st in blk:
                    i = blk.index(st)
                    return blk[i - 1] if i > 0 else None
        return None

    def for_(self, st, fr):
        fused = self._fuse_generator_loop(st, fr)
        if fused is not None:
            return self.block(fused, fr)
        it = self.expr(st.iter, fr)
        if isinstance(it, _Obj) and not it.tuple_like:
            items = self.obj_iter(it, st, fr)
            if items is not None:
                it = items
        if isinstance(it, T) and it.op == "classref" and self.enum_iter(it) is not None:
            it = self.enum_iter(it)
        if isinstance(it, _Iter):
            # consume the iterator one element at a time: a break leaves the rest for whoever uses the iterator next
            while it.pos < len(it.items):
                x = it.items[it.pos]
                it.pos += 1
                self.assign(st.target, x, fr)
                try:
                    if self.block(st.body, fr):
                        return True
                except _Break:
                    return False
                except _Continue:
                    continue
                if fr.env.pop("__loopctl__", None):
                    raise AnalysisError("break / continue under a symbolic condition while consuming an iterator object at %s:%d" % (fr.modname, st.lineno))
            if st.orelse:
                return self.block(st.orelse, fr)
            return False
        seq = _concrete_iter(it)
        if seq is None:
            seq = self._bound_length_iter(it)
        if seq is not None and len(seq) <= MAX_UNROLL:
            done_all = False
            for x in seq:
                self.assign(st.target, x, fr)
                try:
                    if self.block(st.body, fr):
                        done_all = True
                        break
                except _Break:
                    break
                except _Continue:
                    continue
                if fr.env.pop("__loopctl__", None):
                    # a break/continue under a symbolic condition inside an unrolled loop: give up on carried vars
                    for nm in assigned_names(st.body):
                        fr.env[nm] = tm.unk("loopctl:%s" % nm)
                    break
            else:
                if st.orelse:
                    return self.block(st.orelse, fr)
            return done_all
        return self.sym_loop(st, fr, it)

    def _bound_length_iter(self, it):
        """A symbolic list whose length the region under analysis fixes (ev.bind[len(list)] = n) is iterated as its n
        elements list[0] .. list[n-1]; reversed(...) and enumerate(...) of such a list likewise."""
        if isinstance(it, T) and getattr(self, "unroll_sized", False) and (it.op == "sized" or (it.op == "slice" and isinstance(it.args[0], T) and it.args[0].op == "sized")):
            n = tm.blen(it)
            if isinstance(n, int) and 0 <= n <= MAX_UNROLL:
                return [tm.idx(it, i) for i in range(n)]  # the bytes of (a slice of) an input of exactly n bytes
        if not (self.bind and isinstance(it, T)):
            return None
        if it.op == "rev":
            inner = self._bound_length_iter(tm._unfz1(it.args[0])) if isinstance(tm._unfz1(it.args[0]), T) else _concrete_iter(tm._unfz1(it.args[0]))
            return list(reversed(inner)) if inner is not None else None
        if it.op == "enumerate" and len(it.args) == 1:
            a0 = tm._unfz1(it.args[0])
            inner = self._bound_length_iter(a0) if isinstance(a0, T) else _concrete_iter(a0)
            return [(i, x) for i, x in enumerate(inner)] if inner is not None else None
        if tm.tyof(it) not in (tm.LIST, tm.TUPLE):
            return None
        n = self.bind.get(tm.length(it)) if isinstance(tm.length(it), T) else None
        if isinstance(n, int) and not isinstance(n, bool) and 0 <= n <= MAX_UNROLL:
            return [tm.idx(it, i) for i in range(n)]
        return None

    @staticmethod
    def _norm_while(st):
        """`while True: if <t>: break; <body>` (no else) is `while not <t>: <body>`."""
        if isinstance(st.test, ast.Constant) and st.test.value in (True, 1) and not st.orelse and st.body:
            h = st.body[0]
            if isinstance(h, ast.If) and not h.orelse and len(h.body) == 1 and isinstance(h.body[0], ast.Break):
                t = h.test.operand if isinstance(h.test, ast.UnaryOp) and isinstance(h.test.op, ast.Not) else ast.copy_location(ast.UnaryOp(op=ast.Not(), operand=h.test), h.test)
                body = st.body[1:] or [ast.copy_location(ast.Pass(), st)]
                return ast.copy_location(ast.While(test=t, body=body, orelse=[]), st)
        return st

    @staticmethod
    def _lift_walrus(st):
        """`while T[(k := E)]: B`, the assignment being the first thing the test evaluates and B having no `continue`, is
        `k = E; while T[k]: B; k = E`."""
        spine, n = [], st.test
        while True:
            if isinstance(n, ast.NamedExpr):
                break
            if isinstance(n, ast.UnaryOp):
                n = n.operand
            elif isinstance(n, ast.Compare):
                n = n.left
            elif isinstance(n, ast.BoolOp):
                n = n.values[0]
            elif isinstance(n, ast.BinOp):
                n = n.left
            else:
                return None
        if sum(isinstance(x, ast.NamedExpr) for x in ast.walk(st.test)) != 1 or not isinstance(n.target, ast.Name):
            return None
        stack = list(st.body)
        while stack:
            x = stack.pop()
            if isinstance(x, ast.Continue):
                return None
            if isinstance(x, (ast.For, ast.While, ast.FunctionDef, ast.Lambda, ast.ClassDef)):
                continue
            stack.extend(ast.iter_child_nodes(x))
        import copy
        walrus = n

        class Sub(ast.NodeTransformer):
            def visit_NamedExpr(self, x):
                return ast.copy_location(ast.Name(id=walrus.target.id, ctx=ast.Load()), x)
        asg = ast.copy_location(ast.Assign(targets=[ast.Name(id=walrus.target.id, ctx=ast.Store())], value=walrus.value), walrus)
        body = [b for b in st.body if not isinstance(b, ast.Pass)] + [copy.deepcopy(asg)]
        loop = ast.copy_location(ast.While(test=Sub().visit(copy.deepcopy(st.test)), body=body, orelse=st.orelse), st)
        out = [asg, loop]
        for x in out:
            ast.fix_missing_locations(x)
        return out

    def e_NamedExpr(self, e, fr):
        v = self.expr(e.value, fr)
        self.assign(e.target, v, fr)
        return v

    def while_(self, st, fr):
        if any(isinstance(x, ast.NamedExpr) for x in ast.walk(st.test)):
            lifted = self._lift_walrus(st)
            if lifted is not None:
                return self.block(lifted, fr)
        st = self._norm_while(st)
        # a while whose test folds to False never runs
        c0 = self.truth_expr(st.test, fr)
        if c0 is False:
            return False
        if c0 is True:
            # the trip count may depend only on literal structure (length of a list literal, a concrete counter):
            # unroll while the test keeps folding; if it turns symbolic, fall back to the loop summary from the start
            snap_env = clone(fr.env)
            snap_facts = list(fr.facts)
            sm = fr.summary
            marks = (len(sm.exits), len(sm.calls), len(sm.hazards), len(sm.loops))
            ok = True
            n = 0
            # `while True:` without break / return / raise of its own never ends by itself (a generator whose consumer stops asking,
            # a worker loop): nothing to unroll, it is summarised as a loop at once
            endless = isinstance(st.test, ast.Constant) and st.test.value is True and not any(
                isinstance(n_, (ast.Break, ast.Return, ast.Raise)) for b_ in st.body for n_ in ast.walk(b_))
            try:
                while True:
                    c = self.truth_expr(st.test, fr)
                    if c is False:
                        break
                    if c is not True or n >= MAX_UNROLL or endless:
                        ok = False
                        break
                    n += 1
                    try:
                        if self.block(st.body, fr):
                            return True
                    except _Break:
                        break
                    except _Continue:
                        pass
                    if fr.env.pop("__loopctl__", None):
                        ok = False
                        break
            except AnalysisError:
                ok = False
            if ok:
                if st.orelse:
                    return self.block(st.orelse, fr)
                return False
            fr.env = snap_env
            fr.facts = snap_facts
            del sm.exits[marks[0]:], sm.calls[marks[1]:], sm.hazards[marks[2]:], sm.loops[marks[3]:]
        return self.sym_loop(st, fr, None)

    def sym_loop(self, st, fr, it):
        d = fr.loopdepth
        info = LoopInfo(st, "for" if isinstance(st, ast.For) else "while", fr.fi.qualname if fr.fi else "<module>")
        info.depth = d
        info.iter = it
        assigned = assigned_names(st.body)
        carried = [v for v in assigned if v in fr.env]
        sub = fr.fork(T("iter", (d,), tm.BOOL))
        sub.loopdepth = d + 1
        if it is not None:
            sub.iters[d] = it
        for v in carried:
            info.init[v] = fr.env[v]
            sub.env[v] = T("acc", (v, d), tm.tyof(fr.env[v]))
        if isinstance(st, ast.For):
            elem_ty = tm.ANY
            if tm.tyof(it) == tm.BYTES:
                elem_ty = tm.INT
            if isinstance(it, T) and it.op == "enumerate":
                self.assign(st.target, (T("bvi", (d,), tm.INT), tm.bv(d)), sub)
            else:
                self.assign(st.target, tm.bv(d, elem_ty), sub)
        else:
            info.cond = self.truth_expr(st.test, sub)
        n0 = len(fr.summary.exits)
        try:
            self.block(st.body, sub)
        except _Break:
            info.has_break = True
        except _Continue:
            pass
        if sub.env.pop("__loopctl__", None):
            info.has_break = True
        info.exits = fr.summary.exits[n0:]
        if isinstance(st, ast.For) and not info.has_break:
            # an assert inside a for loop establishes its condition for every element once the loop is left
            for ex in info.exits:
                if ex.kind == "raise" and ex.guard and isinstance(ex.guard[-1], T):
                    own = ex.guard[len(fr.guard):]
                    if len(own) == 2 and isinstance(own[0], T) and own[0].op == "iter" and own[0].args[0] == d:
                        fr.facts.append(T("forall", (d, tm._fz(it), tm.lnot(own[1])), tm.BOOL))
        for v in assigned:
            if v in sub.env:
                info.body[v] = sub.env[v]
        fr.summary.loops.append(info)

        def has_acc(x):
            return tm.contains(x, lambda s: isinstance(s, T) and s.op == "acc" and s.args[1] == d)

        for v in assigned:
            new = sub.env.get(v)
            if v not in carried:
                fr.env[v] = tm.unk("loop:%s" % v, tm.tyof(new))
                continue
            pre = fr.env[v]
            acc = T("acc", (v, d), tm.tyof(pre))
            if tm.veq(new, acc):
                continue
            if isinstance(st, ast.For) and not info.has_break:
                # list append / bytes append / integer sum idioms
                if isinstance(new, T) and new.op == "lcat" and tm.veq(new.args[0], acc) and len(new.args) == 2:
                    e = new.args[1]
                    if isinstance(e, tuple) and e and e[0] == "#list" and len(e) == 2 and not has_acc(e[1]):
                        fr.env[v] = tm.lcat([pre, tm.mapt(e[1], it)])
                        continue
                if isinstance(new, T) and new.op == "cat" and tm.veq(new.args[0], acc) and not any(
                        has_acc(p) for p in new.args[1:]):
                    fr.env[v] = tm.cat([pre, tm.join(b"", tm.mapt(tm.cat(list(new.args[1:])), it))])
                    continue
                if isinstance(new, T) and new.op == "add" and any(tm.veq(a, acc) for a in new.args):
                    rest = [a for a in new.args if not tm.veq(a, acc)]
                    if not any(has_acc(a) for a in rest):
                        fr.env[v] = tm.add([pre, T("sum", (tm.mapt(tm.add(rest), it),), tm.INT)])
                        continue
                fr.env[v] = T("fold", (v, tm._fz(new), tm._fz(pre), tm._fz(it), d), tm.tyof(pre))
            else:
                body_items = tuple(sorted(((k, tm._fz(x)) for k, x in info.body.items() if k in carried),
                                          key=lambda kv: kv[0]))
                init_items = tuple(sorted(((k, tm._fz(x)) for k, x in info.init.items()), key=lambda kv: kv[0]))
                fr.env[v] = T("loopout", (v, info.kind, info.cond if info.cond is not None else tm._fz(it), body_items,
                                          init_items, d), tm.tyof(pre) if tm.tyof(pre) == tm.tyof(new) else tm.ANY)
        if isinstance(st, ast.While) and info.cond is not None and not info.has_break:
            # after the loop its condition is false on the final values
            def back(s):
                if isinstance(s, T) and s.op == "acc" and s.args[1] == d and s.args[0] in fr.env:
                    return fr.env[s.args[0]]
                return None
            fr.facts.append(tm.lnot(tm.subst(info.cond, back)))
        if st.orelse:
            return self.block(st.orelse, fr)
        return False

    # ------------------------------------------------------------------ expressions
    def expr(self, e, fr):
        m = getattr(self, "e_" + type(e).__name__, None)
        if m is None:
            raise AnalysisError("expression kind not modelled: %s at %s:%d" % (type(e).__name__, fr.modname, e.lineno))
        r = m(e, fr)
        if self.bind and isinstance(r, T) and r in self.bind:
            r = self.bind[r]  # scripted result (possibly a scripted refusal: T("raise", ...))
            if not (isinstance(r, T) and r.op == "raise"):
                return r
        if isinstance(r, T) and r.op == "raise" and r.args and isinstance(r.args[0], str) and r.args[0] in ("ValueError", "KeyError", "IndexError", "AssertionError") and fr.fi is not None and fr.loopdepth == 0:
            raise _ExprRaise(r.args[0])
        if getattr(self, "bind_pred", None) is not None and isinstance(r, T) and not isinstance(e, (ast.Name, ast.Constant)):
            # the obligation names a whole CLASS of terms (recognised by a predicate, e.g. "the lines of the data file") by one symbol
            bp = self.bind_pred
            if self.__dict__.get("_bind_pred_memo_for") is not bp:
                self._bind_pred_memo_for, self._bind_pred_memo = bp, {}
            r = tm.subst(r, lambda t: bp(t) if isinstance(t, T) else None, self._bind_pred_memo)
        if self.bind and isinstance(r, T):
            if not isinstance(e, (ast.Name, ast.Constant)):
                b = self.bind
                if self._bind_memo_for is not b:
                    self._bind_memo_for, self._bind_memo = b, {}
                r = tm.subst(r, lambda t: b.get(t) if isinstance(t, T) else None, self._bind_memo)
        return r

    def hazard(self, fr, exc, operand, node):
        fr.summary.hazards.append((exc, operand, node, tuple(fr.guard), tuple(fr.facts),
                                   fr.fi.qualname if fr.fi else "<module>", dict(fr.iters)))

    def e_Constant(self, e, fr):
        return e.value

    def e_Name(self, e, fr):
        if e.id in fr.env:
            return fr.env[e.id]
        return self.global_name(fr.modname, [e.id])

    def global_name(self, modname, parts):
        r = self.prog.resolve_chain(modname, parts)
        if r is None:
            if len(parts) == 1:
                return T("ext", ("builtins." + parts[0],))
            return T("ext", (".".join(parts),))
        return self.ref(r)

    def ref(self, r):
        if r[0] == "func":
            return T("fn", (r[1].qualname,))
        if r[0] == "const":
            return self.const(r[1].name, r[2])
        if r[0] == "module":
            return T("modref", (r[1],))
        if r[0] == "extern":
            return T("ext", (r[1],))
        if r[0] == "class":
            return T("classref", (r[1].name + "." + r[2],))
        if r[0] == "attr":
            base = self.ref(r[1])
            return self.getattr_value(base, r[2])
        if r[0] == "classattr":
            st8 = self._class_creation_state(r[1], r[2])
            if st8 is not None and r[3] in st8:
                return st8[r[3]]
            _meths, assigns = self.class_members(r[1].name, r[2])
            for mn, st in assigns:
                names = [t.id for t in st.targets if isinstance(t, ast.Name)] if isinstance(st, ast.Assign) else ([st.target.id] if isinstance(st.target, ast.Name) else [])
                if r[3] in names and st.value is not None:
                    val = self.expr(st.value, Frame(self, mn, None, Summary(None), 0))
                    cnode = self.prog.modules[r[1].name].classnodes.get(r[2])
                    if cnode is not None and any((dotted_parts(b) or ["?"])[-1] == "Enum" for b in cnode.bases) and not ({"__new__", "__init__", "_generate_next_value_"} & set(_meths)) \
                            and not r[3].startswith("_") and tm.is_conc(val):
                        # a member of a plain Enum: an object with .name / .value and the class's methods (one object per member)
                        cache = self.__dict__.setdefault("_enum_members", {})
                        key = (r[1].name, r[2], r[3])
                        if key not in cache:
                            cache[key] = _Obj(r[1].name, r[2], {"name": r[3], "value": val, "_name_": r[3], "_value_": val})
                        return cache[key]
                    bnames_ = {(dotted_parts(b) or ["?"])[-1] for b in cnode.bases} if cnode is not None else set()
                    if not r[3].startswith("_") and not ({"__new__", "_generate_next_value_"} & set(_meths)) and not isinstance(val, bool):
                        if isinstance(val, int) and (bnames_ & {"IntEnum", "IntFlag"} or {"int", "Enum"} <= bnames_):
                            return _EnumInt(val, r[1].name, r[2], r[3])
                        if isinstance(val, str) and ("StrEnum" in bnames_ or {"str", "Enum"} <= bnames_):
                            return _EnumStr(val, r[1].name, r[2], r[3])
                    if cnode is not None and any((dotted_parts(b) or ["?"])[-1] == "Enum" for b in cnode.bases) and "__new__" in _meths and "_generate_next_value_" not in _meths \
                            and not r[3].startswith("_"):
                        # a member of an Enum with its own __new__ (members carrying extra attributes): __new__(cls, *value) builds the
                        # member object and may set _value_; __init__(self, *value) runs after it
                        cache = self.__dict__.setdefault("_enum_members", {})
                        key = (r[1].name, r[2], r[3])
                        if key not in cache:
                            args_ = list(val) if isinstance(val, tuple) else [val]
                            f0 = Frame(self, mn, None, Summary(None), 0)
                            mem = self.call_fn(_meths["__new__"], [T("classref", (r[1].name + "." + r[2],))] + args_, {}, st.value, f0)
                            if not isinstance(mem, _Obj):
                                return val
                            if "__init__" in _meths:
                                self.call_fn(_meths["__init__"], [mem] + args_, {}, st.value, f0)
                            mem.fields.setdefault("_value_", val)
                            mem.fields["value"] = mem.fields["_value_"]
                            mem.fields["name"] = mem.fields["_name_"] = r[3]
                            cache[key] = mem
                        return cache[key]
                    return val
            return T("raise", ("AttributeError",))
        return tm.unk("ref")

    _ENUM_BASES = {"Enum", "IntEnum", "IntFlag", "Flag", "StrEnum"}

    def _class_creation_state(self, module, cls):
        """Class-level names of `cls` as they are once the module is imported, when `cls` defines `__init_subclass__`: the hook
        runs at the creation of every subclass (in definition order, with the class keywords), and registries kept on the base
        class (`Base.registry = Base.registry + (cls,)`, `Base._by_kind[kind] = cls`) are filled by it. None without a hook."""
        fi = module.classes.get(cls, {}).get("__init_subclass__")
        if fi is None:
            return None
        cache = self.__dict__.setdefault("_class_state_cache", {})
        key = (module.name, cls)
        if key in cache:
            return cache[key]
        cache[key] = None  # (re-entrant reads during the replay see the class body's own values through the environment)
        cnode = module.classnodes.get(cls)
        f0 = Frame(self, module.name, None, Summary(None), 0)
        env = {}
        for st in cnode.body:
            if isinstance(st, ast.Assign) and len(st.targets) == 1 and isinstance(st.targets[0], ast.Name):
                env[cls + "." + st.targets[0].id] = self.expr(st.value, f0)
            elif isinstance(st, ast.AnnAssign) and isinstance(st.target, ast.Name) and st.value is not None:
                env[cls + "." + st.target.id] = self.expr(st.value, f0)
        subs = sorted(((cn2.lineno, n2, cn2) for n2, cn2 in module.classnodes.items() if n2 != cls and self._is_base_of((module.name, cls), (module.name, n2))), key=lambda x: x[0])
        pname = fi.params()[0] if fi.params() else "cls"
        for _ln, n2, cn2 in subs:
            args = {pname: T("classref", (module.name + "." + n2,))}
            for k in cn2.keywords:
                if k.arg and k.arg != "metaclass":
                    args[k.arg] = self.expr(k.value, f0)
            try:
                sub = self.run(fi, args, depth=1, use_defaults=True, closure_env=env)
            except AnalysisError:
                cache[key] = None
                return None
            env = {k_: v_ for k_, v_ in sub.env.items() if k_.startswith(cls + ".")}
        out = {k_[len(cls) + 1:]: v_ for k_, v_ in env.items()}
        cache[key] = out
        return out

    def enum_iter(self, v):
        """The members an Enum class yields when iterated (aliases -- later names of an earlier value -- left out); None otherwise."""
        if not (isinstance(v, T) and v.op == "classref" and len(v.args) == 1 and "." in v.args[0]):
            return None
        cmod, ccls = v.args[0].rsplit(".", 1)
        mems = self.enum_members(cmod, ccls)
        if mems is None:
            return None
        out, seen = [], []
        for _n, mv in mems:
            val = mv.fields.get("value") if isinstance(mv, _Obj) else mv
            if not tm.is_conc(val) or isinstance(val, T):
                return None
            if any(type(val) == type(s_) and val == s_ for s_ in seen):
                continue
            seen.append(val)
            out.append(mv)
        return out

    def enum_members(self, modname, cls):
        """[(name, member)] of a package Enum class in definition order (None when the class is not an Enum)."""
        m = self.prog.modules.get(modname)
        node = m.classnodes.get(cls) if m is not None else None
        if node is None or not any((dotted_parts(b) or ["?"])[-1] in self._ENUM_BASES for b in node.bases):
            return None
        out = []
        for st in node.body:
            if isinstance(st, ast.Assign) and len(st.targets) == 1 and isinstance(st.targets[0], ast.Name) and not st.targets[0].id.startswith("_"):
                out.append((st.targets[0].id, self.ref(("classattr", m, cls, st.targets[0].id))))
        return out

    def e_Attribute(self, e, fr):
        parts = dotted_parts(e)
        self._cur = fr
        if parts and parts[0] in fr.env and isinstance(fr.env[parts[0]], _Obj):
            v = fr.env[parts[0]]
            for a in parts[1:]:
                v = self.getattr_value(v, a)
            return v
        if parts and parts[0] not in fr.env:
            key = ".".join(parts)
            if key in fr.env:
                return fr.env[key]
            return self.global_name(fr.modname, parts)
        if parts and ".".join(parts) in fr.env:
            return fr.env[".".join(parts)]
        base = self.expr(e.value, fr)
        if isinstance(base, (_EnumInt, _EnumStr)) or (isinstance(base, _Obj) and "_name_" in base.fields):
            # a property / attribute of an enum MEMBER, evaluated on constants: decided here, it raises nothing (for try bodies)
            c0_, h0_, x0_ = len(fr.summary.calls), len(fr.summary.hazards), len(fr.summary.exits)
            r_ = self.getattr_value(base, e.attr)
            if tm.is_conc(r_) and not isinstance(r_, T) and len(fr.summary.hazards) == h0_ and len(fr.summary.exits) == x0_:
                del fr.summary.calls[c0_:]
                self.__dict__.setdefault("_inert_calls", set()).add(id(e))
            return r_
        return self.getattr_value(base, e.attr)

    def class_members(self, modname, cls):
        """(methods, class-level assignment nodes) of a package class, own members first, then package base classes."""
        out_m, out_a = {}, []
        seen = set()
        work = [(modname, cls)]
        while work:
            mn, cn = work.pop(0)
            if (mn, cn) in seen or mn not in self.prog.modules:
                continue
            seen.add((mn, cn))
            m = self.prog.modules[mn]
            for k, v in m.classes.get(cn, {}).items():
                out_m.setdefault(k, v)
            node = m.classnodes.get(cn)
            if node is None:
                continue
            for st in node.body:
                if isinstance(st, (ast.Assign, ast.AnnAssign)):
                    out_a.append((mn, st))
            for b in node.bases:
                parts = dotted_parts(b)
                r = self.prog.resolve_chain(mn, parts) if parts else None
                if r is not None and r[0] == "class":
                    work.append((r[1].name, r[2]))
        return out_m, out_a

    def _class_level_value(self, assigns, attr):
        """The value a class body assigns to `attr` (NAME = v, NAME: T = v, or A, B, C = x, y, z); NotImplemented if none."""
        for mn, st in assigns:
            f0 = Frame(self, mn, None, Summary(None), 0)
            if isinstance(st, ast.Assign):
                for t in st.targets:
                    if isinstance(t, ast.Name) and t.id == attr:
                        return self.expr(st.value, f0)
                    if isinstance(t, (ast.Tuple, ast.List)):
                        for i, el in enumerate(t.elts):
                            if isinstance(el, ast.Name) and el.id == attr:
                                if isinstance(st.value, (ast.Tuple, ast.List)) and len(st.value.elts) == len(t.elts):
                                    return self.expr(st.value.elts[i], f0)
                                v = self.expr(st.value, f0)
                                seq = _concrete_iter(v) if not isinstance(v, (str, bytes, dict)) else None
                                if seq is not None and len(seq) == len(t.elts):
                                    return seq[i]
            elif isinstance(st, ast.AnnAssign) and isinstance(st.target, ast.Name) and st.target.id == attr and st.value is not None:
                return self.expr(st.value, f0)
        return NotImplemented

    def getattr_value(self, base, attr):
        if isinstance(base, T) and base.op == "ite" and getattr(self, "_cur", None) is not None:
            base = self.under_facts(base, self._cur)  # (a branch the path has already excluded -- `if x is None: raise` -- is gone)
        if isinstance(base, T) and base.op == "ite" and all(isinstance(a_, (_EnumInt, _EnumStr, _Obj)) or (isinstance(a_, T) and a_.op == "ite") for a_ in base.args[1:]):
            # a member / an object chosen by a condition: the attribute of whichever was chosen
            x_, y_ = self.getattr_value(base.args[1], attr), self.getattr_value(base.args[2], attr)
            if not (isinstance(x_, T) and x_.op in ("attr", "raise")) and not (isinstance(y_, T) and y_.op in ("attr", "raise")):
                return x_ if tm.veq(x_, y_) else tm.ite(base.args[0], x_, y_)
        if isinstance(base, (_EnumInt, _EnumStr)):
            if attr in ("value", "_value_"):
                return int(base) if isinstance(base, int) else str(base)
            if attr in ("name", "_name_"):
                return base.member
            meths, assigns = self.class_members(base.modname, base.cls)
            if attr in meths:
                decos = {ast.unparse(d) for d in meths[attr].node.decorator_list}
                if "property" in decos or "functools.cached_property" in decos or "cached_property" in decos:
                    return self.call_fn(meths[attr], [base], {}, meths[attr].node, self._cur if getattr(self, "_cur", None) is not None else Frame(self, base.modname, None, Summary(None), 0))
                return T("boundmethod", (base, attr))
            if any(attr in ([t.id for t in st.targets if isinstance(t, ast.Name)] if isinstance(st, ast.Assign) else []) for _mn, st in assigns):
                return self.ref(("classattr", self.prog.modules[base.modname], base.cls, attr))  # another member / a class constant through a member
        if isinstance(base, _Obj):
            if attr in base.fields:
                return base.fields[attr]
            meths, assigns = self.class_members(base.modname, base.cls)
            own_ = self.prog.modules[base.modname].classnodes.get(base.cls) if base.modname in self.prog.modules else None
            if own_ is not None and attr in meths and attr not in self.prog.modules[base.modname].classes.get(base.cls, {}):
                # a name the object's own class binds at class level shadows a method / property it inherits
                own_assigns = [(base.modname, st_) for st_ in own_.body if isinstance(st_, (ast.Assign, ast.AnnAssign))]
                cv_ = self._class_level_value(own_assigns, attr)
                if cv_ is not NotImplemented:
                    return cv_
            if attr in meths:
                decos = {ast.unparse(d) for d in meths[attr].node.decorator_list}
                if "property" in decos or "functools.cached_property" in decos or "cached_property" in decos:
                    return self.call_fn(meths[attr], [base], {}, meths[attr].node, self._cur if getattr(self, "_cur", None) is not None else Frame(self, base.modname, None, Summary(None), 0))
                return T("boundmethod", (base, attr))
            cv = self._class_level_value(assigns, attr)
            if cv is not NotImplemented:
                return cv
            if base.tuple_like and attr == "_fields":
                return tuple(base.fields.keys())
            return T("raise", ("AttributeError",))
        if isinstance(base, T) and base.op == "classref" and len(base.args) == 1 and "." in base.args[0]:
            cmod, ccls = base.args[0].rsplit(".", 1)
            m = self.prog.modules.get(cmod)
            if m is not None and attr in ("_value2member_map_", "__members__", "_member_map_", "_member_names_"):
                mems = self.enum_members(cmod, ccls)
                if mems is not None:  # the Enum machinery's own tables
                    if attr == "_member_names_":
                        return [n_ for n_, _m in mems]
                    if attr == "_value2member_map_":
                        d_ = {}
                        for _n, mv in mems:
                            v_ = mv.fields.get("value") if isinstance(mv, _Obj) else (int(mv) if isinstance(mv, _EnumInt) else str(mv) if isinstance(mv, _EnumStr) else mv)
                            if not tm.is_conc(v_) or isinstance(v_, (list, dict)):
                                return T("attr", (tm._fz(base), attr))
                            d_.setdefault(v_, mv)
                        return d_
                    return {n_: mv for n_, mv in mems}
            if m is not None:
                return self.ref(self.prog.resolve_chain(cmod, [ccls, attr]))
        if isinstance(base, T) and base.op == "structobj" and attr == "size":
            lay = _struct_layout(base.args[0])
            if lay is not None:
                return sum(w for _, w, _ in lay[1])
        if isinstance(base, T) and base.op == "structobj" and attr == "format":
            return base.args[0]
        if isinstance(base, T) and base.op == "modref":
            r = self.prog.resolve_chain(base.args[0].rsplit(".", 1)[0] if False else base.args[0], [attr]) \
                if base.args[0] in self.prog.modules else None
            if base.args[0] in self.prog.modules:
                r = self.prog.lookup(base.args[0], attr)
                if r is None and (base.args[0] + "." + attr) in self.prog.modules:
                    r = ("module", base.args[0] + "." + attr)
                if r is not None:
                    return self.ref(r)
                return T("raise", ("AttributeError",))
            return T("ext", (base.args[0] + "." + attr,))
        if isinstance(base, T) and base.op == "ext":
            return T("ext", (base.args[0] + "." + attr,))
        if isinstance(base, T) and base.op == "param" and base.args[0] in ("self", "cls") and self._cur_cls is not None:
            modname, cls = self._cur_cls
            cn = self.prog.modules[modname].classnodes.get(cls) if modname in self.prog.modules else None
            if cn is not None:
                for st in cn.body:  # a class-level constant read through the instance
                    if isinstance(st, ast.Assign) and any(isinstance(t, ast.Name) and t.id == attr for t in st.targets):
                        return self.expr(st.value, Frame(self, modname, None, Summary(None), 0))
                    if isinstance(st, ast.AnnAssign) and isinstance(st.target, ast.Name) and st.target.id == attr and st.value is not None:
                        return self.expr(st.value, Frame(self, modname, None, Summary(None), 0))
        if self.objects and isinstance(base, T):
            for k, d in self.objects.items():
                if tm.veq(k, base):  # an object whose attribute dictionary the scenario under analysis fixes
                    return d[attr] if attr in d else T("raise", ("AttributeError",))
        return T("attr", (tm._fz(base), attr))

    def e_JoinedStr(self, e, fr):
        parts = []
        for v in e.values:
            if isinstance(v, ast.Constant):
                parts.append(v.value)
            else:
                x = self.expr(v.value, fr)
                spec = None
                if v.format_spec is not None:
                    spec = self.expr(v.format_spec, fr)
                if tm.is_conc(x) and (spec is None or isinstance(spec, str)) and v.conversion == -1 and not isinstance(
                        x, (bytes, list, dict, tuple)):
                    try:
                        parts.append(format(x, spec or ""))
                        continue
                    except (ValueError, TypeError):
                        pass
                if spec is None and v.conversion == -1 and tm.tyof(x) == tm.STR:
                    parts.append(x)
                else:
                    parts.append(T("fmt", (tm._fz(x), spec, v.conversion), tm.STR))
        return tm.scat(parts)

    def _display(self, e, fr):
        """Elements of a list / tuple display; *x spliced in when x has a known structure."""
        out = []
        for x in e.elts:
            if isinstance(x, ast.Starred):
                v = self.expr(x.value, fr)
                seq = _concrete_iter(v) if not isinstance(v, (str, dict)) else None
                if seq is None and isinstance(v, T):
                    seq = self._bound_length_iter(v)
                if seq is not None:
                    out.extend(seq)
                    continue
                out.append(T("starred", (tm._fz(v),)))
            else:
                out.append(self.expr(x, fr))
        return out

    def e_Tuple(self, e, fr):
        return tuple(self._display(e, fr))

    def e_List(self, e, fr):
        return self._display(e, fr)

    def e_Set(self, e, fr):
        return T("set", tuple(self.expr(x, fr) for x in e.elts))

    def e_Dict(self, e, fr):
        out = {}
        for k, v in zip(e.keys, e.values):
            if k is None:
                vv = self.expr(v, fr)
                if isinstance(vv, dict):
                    out.update(vv)
                else:
                    return T("dictmerge", (tm.freeze(out), tm._fz(vv)), tm.DICT)
                continue
            kk = self.expr(k, fr)
            if not tm.is_conc(kk) or isinstance(kk, (list, dict)):
                return T("dict?", (), tm.DICT)
            out[kk] = self.expr(v, fr)
        return out

    def e_IfExp(self, e, fr):
        c = self.decide_in(self.truth_expr(e.test, fr), fr)
        if c is True:
            return self.expr(e.body, fr)
        if c is False:
            return self.expr(e.orelse, fr)
        return self.merge(c, self.expr(e.body, fr), self.expr(e.orelse, fr))

    def e_Lambda(self, e, fr):
        key = ast.dump(e)
        self._lambdas[key] = (e, fr)
        return T("lambda", (key,))

    def apply_lambda(self, lam, args, fr):
        node, lfr = self._lambdas[lam.args[0]]
        sub = fr.fork()
        for k, v in lfr.env.items():
            sub.env.setdefault(k, v)
        names = [a.arg for a in node.args.args]
        if len(names) != len(args):
            return None
        for n_, v in zip(names, args):
            sub.env[n_] = v
        return self.expr(node.body, sub)

    def e_Starred(self, e, fr):
        return T("starred", (tm._fz(self.expr(e.value, fr)),))

    def e_BoolOp(self, e, fr):
        vals = [self.expr(v, fr) for v in e.values]
        # value-level semantics matter only when operands are not booleans
        if all(tm.tyof(v) == tm.BOOL for v in vals):
            return tm.land(vals) if isinstance(e.op, ast.And) else tm.lor(vals)
        out = vals[-1]
        for v in reversed(vals[:-1]):
            c = tm.truth(v)
            if isinstance(e.op, ast.And):
                out = tm.ite(c, out, v) if isinstance(c, T) else (out if c else v)
            else:
                out = tm.ite(c, v, out) if isinstance(c, T) else (v if c else out)
        if isinstance(out, T) and out.op == "ite":
            # used as a condition later: keep a boolean reading available
            bools = [tm.truth(v) for v in vals]
            out = T("boolop", ("and" if isinstance(e.op, ast.And) else "or", tm.land(bools) if isinstance(
                e.op, ast.And) else tm.lor(bools), out), tm.ANY)
        return out

    def e_UnaryOp(self, e, fr):
        v = self.expr(e.operand, fr)
        if isinstance(v, _Obj):
            if isinstance(e.op, (ast.USub, ast.UAdd, ast.Invert)):
                r = self.dunder(v, {ast.USub: "neg", ast.UAdd: "pos", ast.Invert: "invert"}[type(e.op)], [], e, fr)
                if r is not NotImplemented:
                    return r
            if isinstance(e.op, ast.Not):
                return tm.lnot(self.obj_truth(v, e, fr))
        if isinstance(e.op, ast.Not):
            return tm.lnot(tm.truth(v))
        if isinstance(e.op, ast.USub):
            return tm.mul([-1, v])
        if isinstance(e.op, ast.UAdd):
            return v
        if isinstance(e.op, ast.Invert):
            if isinstance(v, int):
                return ~v
            return T("invert", (v,), tm.INT)
        raise AnalysisError("unary op")

    _BINOP_DUNDER = {ast.Add: "add", ast.Sub: "sub", ast.Mult: "mul", ast.Div: "truediv", ast.FloorDiv: "floordiv", ast.Mod: "mod", ast.Pow: "pow",
                     ast.BitAnd: "and", ast.BitOr: "or", ast.BitXor: "xor", ast.LShift: "lshift", ast.RShift: "rshift", ast.MatMult: "matmul"}
    _CMP_DUNDER = {ast.Lt: ("lt", "gt"), ast.LtE: ("le", "ge"), ast.Gt: ("gt", "lt"), ast.GtE: ("ge", "le"), ast.Eq: ("eq", "eq"), ast.NotEq: ("ne", "ne")}

    def dunder(self, obj, name, args, e, fr):
        """obj.__name__(*args) for an object of a package class that defines it (operator overloading, bytes(x), len(x), ...);
        NotImplemented when the class has no such method."""
        if not isinstance(obj, _Obj):
            return NotImplemented
        meths, _a = self.class_members(obj.modname, obj.cls)
        fi = meths.get("__%s__" % name)
        if fi is None:
            return NotImplemented
        return self.call_fn(fi, [obj] + list(args), {}, e, fr)

    def obj_iter(self, obj, e, fr):
        """The elements an object yields when iterated (its __iter__ evaluated; a generator method is its list of yields)."""
        r = self.dunder(obj, "iter", [], e, fr)
        if r is NotImplemented:
            return None
        if isinstance(r, _Obj) and not r.tuple_like:
            # the iterator protocol: __next__ is called until it raises StopIteration -- unrolled while each call's outcome
            # (an element, or StopIteration) is decided
            meths, _a = self.class_members(r.modname, r.cls)
            nx = meths.get("__next__")
            if nx is None:
                return None
            items = []
            for _ in range(MAX_UNROLL):
                snap = clone(r.fields)
                sub = self.run(nx, {nx.params()[0]: r}, depth=fr.depth + 1)
                first = None
                for ex in sub.exits:
                    g = tm.land(list(ex.guard))
                    if g is False:
                        continue
                    first = (ex, g)
                    break
                if first is None or first[1] is not True:
                    r.fields = snap
                    return None  # whether the iterator is exhausted is not decided here
                ex = first[0]
                if ex.kind == "raise":
                    if (ex.exc or "").split(".")[-1] == "StopIteration":
                        fr.summary.calls.extend(c for c in sub.calls)
                        return items
                    fr.summary.exits.append(Exit(tuple(fr.guard), "raise", ex.value, ex.node, ex.func, ex.exc, facts=tuple(fr.facts)))
                    return items
                fr.summary.calls.extend((c[0], c[1], c[2], c[3], tuple(fr.guard) + tuple(c[4]), tuple(fr.facts) + tuple(c[5] if len(c) > 5 else ()),
                                         _merge_iters(fr.iters, c[6] if len(c) > 6 else {})) for c in sub.calls)
                fr.summary.hazards.extend(sub.hazards)
                items.append(ex.value)
            return None
        if isinstance(r, _Iter):
            return list(r.items[r.pos:])
        seq = _concrete_iter(r) if not isinstance(r, (str, bytes, dict)) else None
        return list(seq) if seq is not None else None

    def e_BinOp(self, e, fr):
        a, b = self.expr(e.left, fr), self.expr(e.right, fr)
        if isinstance(a, _Obj) or isinstance(b, _Obj):
            nm = self._BINOP_DUNDER.get(type(e.op))
            if nm:
                r = self.dunder(a, nm, [b], e, fr)
                if r is NotImplemented:
                    r = self.dunder(b, "r" + nm, [a], e, fr)
                if r is not NotImplemented:
                    return r
        return self.binop(e.op, a, b, e)

    def binop(self, op, a, b, node=None):
        ta, tb = tm.tyof(a), tm.tyof(b)
        if isinstance(op, ast.Add):
            if tm.BYTES in (ta, tb) and ta in (tm.BYTES, tm.ANY) and tb in (tm.BYTES, tm.ANY):
                return tm.cat([a, b])
            if tm.STR in (ta, tb) and ta in (tm.STR, tm.ANY) and tb in (tm.STR, tm.ANY):
                return tm.scat([a, b])
            if ta == tm.LIST or tb == tm.LIST:
                return tm.lcat([a, b])
            if ta == tm.TUPLE and tb == tm.TUPLE and isinstance(a, tuple) and isinstance(b, tuple):
                return a + b
            if ta in (tm.INT, tm.BOOL, tm.FLOAT) or tb in (tm.INT, tm.BOOL, tm.FLOAT):
                return tm.add([a, b])
            return T("plus", (tm._fz(a), tm._fz(b)))
        if isinstance(op, ast.Sub):
            return tm.sub(a, b)
        if isinstance(op, ast.Mult):
            if ta in (tm.BYTES, tm.STR, tm.LIST):
                return tm.rep(a, b)
            if tb in (tm.BYTES, tm.STR, tm.LIST):
                return tm.rep(b, a)
            return tm.mul([a, b])
        if isinstance(op, ast.BitOr) and isinstance(a, dict) and isinstance(b, dict):
            d = dict(a)
            d.update(b)
            return d
        if isinstance(op, ast.BitOr) and (ta == tm.DICT or tb == tm.DICT):
            return T("dictmerge", (tm._fz(a), tm._fz(b)), tm.DICT)
        if isinstance(op, ast.Mod) and ta == tm.STR:
            r_ = _percent_format(a, b)
            if r_ is not None:
                return r_
            return T("strformat", (a, tm._fz(b)), tm.STR)
        name = {ast.FloorDiv: "floordiv", ast.Mod: "mod", ast.Pow: "pow", ast.BitAnd: "band", ast.BitOr: "bor",
                ast.BitXor: "bxor", ast.LShift: "shl", ast.RShift: "shr", ast.Div: "div"}.get(type(op))
        if name is None:
            raise AnalysisError("binary operator not modelled: %s" % type(op).__name__)
        return tm.binop(name, a, b)

    def e_Compare(self, e, fr):
        left = self.expr(e.left, fr)
        outs = []
        for op, rn in zip(e.ops, e.comparators):
            right = self.expr(rn, fr)
            name = {ast.Lt: "lt", ast.LtE: "le", ast.Gt: "gt", ast.GtE: "ge", ast.Eq: "eq", ast.NotEq: "ne",
                    ast.In: "in", ast.NotIn: "notin", ast.Is: "is", ast.IsNot: "isnot"}[type(op)]
            if name in ("in", "notin") and isinstance(right, list):
                right = tuple(right)
            done = False
            if isinstance(left, _Obj) or isinstance(right, _Obj):
                if type(op) in self._CMP_DUNDER:
                    d1, d2 = self._CMP_DUNDER[type(op)]
                    r = self.dunder(left, d1, [right], e, fr)
                    if r is NotImplemented:
                        r = self.dunder(right, d2, [left], e, fr)
                    if r is NotImplemented and name == "ne":
                        r = self.dunder(left, "eq", [right], e, fr)
                        r = tm.lnot(tm.truth(r)) if r is not NotImplemented else r
                    if r is NotImplemented and name in ("eq", "ne") and isinstance(left, _Obj) and getattr(left, "value_eq", None) is not None:
                        if isinstance(right, _Obj) and (right.modname, right.cls) == (left.modname, left.cls):
                            r = tm.land([tm.cmp("eq", left.fields.get(f_), right.fields.get(f_)) for f_ in left.value_eq])
                        else:
                            r = False
                        r = r if name == "eq" else tm.lnot(r)
                    if r is not NotImplemented:
                        outs.append(tm.truth(r))
                        done = True
                elif name in ("in", "notin") and isinstance(right, _Obj):
                    r = self.dunder(right, "contains", [left], e, fr)
                    if r is not NotImplemented:
                        outs.append(tm.truth(r) if name == "in" else tm.lnot(tm.truth(r)))
                        done = True
            if not done:
                outs.append(tm.cmp(name, left, right))
            left = right
        return tm.land(outs)

    def truth_expr(self, node, fr):
        """The truth value of a test expression (an object of a package class answers through __bool__ / __len__)."""
        v = self.expr(node, fr)
        if isinstance(v, _Obj) and not v.tuple_like:
            return self.obj_truth(v, node, fr)
        return tm.truth(v)

    def obj_truth(self, v, e, fr):
        r = self.dunder(v, "bool", [], e, fr)
        if r is NotImplemented:
            r = self.dunder(v, "len", [], e, fr)
            if r is NotImplemented:
                return True  # an object without __bool__ / __len__ is true
            return tm.truth(r)
        return tm.truth(r)

    def e_Slice(self, e, fr):
        return T("sliceobj", (self.expr(e.lower, fr) if e.lower is not None else None,
                              self.expr(e.upper, fr) if e.upper is not None else None,
                              self.expr(e.step, fr) if e.step is not None else None))

    def e_Subscript(self, e, fr):
        base = self.expr(e.value, fr)
        if isinstance(e.slice, ast.Slice):
            lo = self.expr(e.slice.lower, fr) if e.slice.lower is not None else None
            hi = self.expr(e.slice.upper, fr) if e.slice.upper is not None else None
            if e.slice.step is not None:
                step = self.expr(e.slice.step, fr)
                if step == -1 and lo is None and hi is None:
                    if isinstance(base, (bytes, str, list, tuple)):
                        return base[::-1]
                    if isinstance(base, T) and base.op == "rev":
                        return base.args[0]
                    return T("rev", (base,), tm.tyof(base))
                if tm.is_conc(base) and tm.is_conc(lo) and tm.is_conc(hi) and tm.is_conc(step):
                    return base[lo:hi:step]
                return T("slice3", (tm._fz(base), lo, hi, step), tm.tyof(base))
            return tm.slc(base, lo, hi)
        key = self.expr(e.slice, fr)
        if isinstance(key, slice):  # x[slice(a, b)] is x[a:b]
            if key.step in (None, 1):
                return tm.slc(base, key.start, key.stop)
            return T("slice3", (tm._fz(base), key.start, key.stop, key.step), tm.tyof(base))
        self._cur, self._curnode = fr, e
        if isinstance(base, T) and base.op == "ite":
            return tm.ite(base.args[0], self.index(_unfz(base.args[1]), key), self.index(_unfz(base.args[2]), key))
        return self.index(base, key)

    def subscript_value(self, base, key, e, fr):
        """base[key] for values (used by operator.itemgetter and friends)."""
        if isinstance(key, slice):
            if key.step in (None, 1):
                return tm.slc(base, key.start, key.stop)
            return T("slice3", (tm._fz(base), key.start, key.stop, key.step), tm.tyof(base))
        self._cur, self._curnode = fr, e
        return self.index(base, key)

    def index(self, base, key):
        if isinstance(base, T) and base.op == "classref" and len(base.args) == 1 and "." in base.args[0] and isinstance(key, str):
            cmod, ccls = base.args[0].rsplit(".", 1)
            mems = self.enum_members(cmod, ccls)
            if mems is not None:  # Enum['NAME']: the member of that name, KeyError when there is none
                for n_, mv in mems:
                    if n_ == key:
                        return mv
                return T("raise", ("KeyError",))
        if isinstance(base, _Obj) and not base.tuple_like and getattr(self, "_cur", None) is not None:
            r_ = self.dunder(base, "getitem", [key], getattr(self, "_curnode", None), self._cur)  # obj[key] is obj.__getitem__(key)
            if r_ is not NotImplemented:
                return r_
        if isinstance(base, _Obj) and base.tuple_like and isinstance(key, int) and not isinstance(key, bool):
            vals = list(base.fields.values())
            if -len(vals) <= key < len(vals):
                return vals[key]
            return T("raise", ("IndexError",))
        if isinstance(base, tuple) and base and base[0] in ("#list", "#tuple") and isinstance(key, int):
            items = base[1:]
            if -len(items) <= key < len(items):
                return _unfz(items[key])
        if isinstance(base, tuple) and base and base[0] == "#dict":
            for k, v in base[1:]:
                if tm.veq(k, tm.freeze(key)):
                    return _unfz(v)
        if isinstance(base, T) and base.op in ("store", "fold", "mutated", "dictupdate", "dictmerge") and isinstance(key, str):
            from .rules import dict_get
            got = dict_get(base, key)
            if got is not None:
                return _unfz(got)
        if isinstance(base, dict) and isinstance(key, T):
            r = T("lookup", (tm.freeze(base), key), tm.ANY)
            self.hazard(self._cur, "KeyError", r, self._curnode)
            return r
        if isinstance(base, (list, tuple)) and isinstance(key, T):
            return T("idx", (tm.freeze(base), key), tm.ANY)
        if isinstance(base, T) and base.op == "param" and base.ty == tm.DICT:
            return T("field", (base, tm._fz(key)))
        if isinstance(base, T) and base.op in ("field", "bv") and isinstance(key, str):
            return T("field", (base, key))

        r = tm.idx(base, key)
        if isinstance(base, T) and base.op == "map" and base.args[2] is None and not (isinstance(r, T) and r.op == "idx" and tm.veq(r.args[0], base)):
            self.hazard(self._cur, "IndexError", tm.idx(T("seq", (base.args[1],), tm.LIST), key), self._curnode)
        if isinstance(r, T) and r.op == "idx" and tm.veq(r.args[0], base):
            self.hazard(self._cur, "IndexError" if tm.tyof(base) != tm.DICT else "KeyError", r, self._curnode)
        elif isinstance(r, T) and r.op == "raise":
            self.hazard(self._cur, r.args[0], r, self._curnode)
        return r

    # ---- comprehensions
    def e_ListComp(self, e, fr):
        return self.comp(e, fr, "list")

    def e_GeneratorExp(self, e, fr):
        r = self.comp(e, fr, "gen")
        if isinstance(r, list) and os.environ.get("SA_GEN_AS_LIST") != "1":
            r = _Iter(r)  # a generator expression is a one-shot iterator object too
        return r

    def e_SetComp(self, e, fr):
        return T("setof", (tm._fz(self.comp(e, fr, "list")),))

    def e_DictComp(self, e, fr):
        return self.comp(e, fr, "dict")

    def _comp_over_bounded_generator(self, e, fr):
        """[ELT for T in zip(range(N), gen(...))] is the loop `acc = []; for T in zip(range(N), gen(...)): acc.append(ELT)`, which the
        generator / consumer fusion turns into one loop (at most N elements, the range asked first). NotImplemented otherwise."""
        from .fuse import zip_range_parts
        if len(e.generators) != 1 or e.generators[0].ifs or e.generators[0].is_async or zip_range_parts(e.generators[0].iter) is None or fr.fi is None:
            return NotImplemented
        gen = e.generators[0]
        self._comp_n = getattr(self, "_comp_n", 0) + 1
        acc = "__comp%d_acc" % self._comp_n
        loop = ast.For(target=gen.target, iter=gen.iter,
                       body=[ast.Expr(value=ast.Call(func=ast.Attribute(value=ast.Name(id=acc, ctx=ast.Load()), attr="append", ctx=ast.Load()), args=[e.elt], keywords=[]))], orelse=[])
        ast.copy_location(loop, e)
        ast.fix_missing_locations(loop)
        fused = self._fuse_generator_loop(loop, fr)
        if fused is None:
            return NotImplemented
        names = {n_.id for n_ in ast.walk(gen.target) if isinstance(n_, ast.Name)}
        saved = {n_: fr.env[n_] for n_ in names if n_ in fr.env}
        fr.env[acc] = []
        if self.block(fused, fr):
            raise AnalysisError("a comprehension over a bounded generator does not complete normally at %s:%d" % (fr.modname, e.lineno))
        out = fr.env.pop(acc)
        for n_ in names:  # the comprehension's own variables do not leak
            fr.env.pop(n_, None)
        fr.env.update(saved)
        return out

    def comp(self, e, fr, kind, gi=0, sub=None):
        if kind == "list" and gi == 0 and sub is None:
            r_ = self._comp_over_bounded_generator(e, fr)
            if r_ is not NotImplemented:
                return r_
        sub = sub or fr.fork()
        gen = e.generators[gi]
        it = self.expr(gen.iter, sub)
        if isinstance(it, _Obj) and not it.tuple_like:
            items_ = self.obj_iter(it, gen.iter, sub)  # an object of a package class: what its __iter__ / __next__ yield
            if items_ is not None:
                it = items_
        if isinstance(it, T) and it.op == "classref" and self.enum_iter(it) is not None:
            it = self.enum_iter(it)
        seq = _concrete_iter(it)
        if seq is None:
            seq = self._bound_length_iter(it)
        last = gi == len(e.generators) - 1

        def body(s):
            if not last:
                return self.comp(e, fr, kind, gi + 1, s)
            if kind == "dict":
                return (self.expr(e.key, s), self.expr(e.value, s))
            return self.expr(e.elt, s)

        if seq is not None and len(seq) <= 4096:
            out = []
            ok = True
            for x in seq:
                self.assign(gen.target, x, sub)
                cs = [self.decide(self.truth_expr(c, sub)) for c in gen.ifs]
                c = tm.land(cs)
                if c is False:
                    continue
                if c is not True:
                    if kind == "gen" and last and out and len(e.generators) == 1:
                        # a generator is lazy: what it yields before the first undecidable filter is known; a consumer that
                        # stops there (next(...), any(...)) never asks for the rest
                        it_ = _Iter(out)
                        it_.partial = True
                        return it_
                    ok = False
                    break
                r = body(sub)
                if not last:
                    if kind == "dict" and isinstance(r, dict):
                        out.extend(r.items())  # inner generator of a dict comprehension: its items join the outer result
                    else:
                        out.extend(r if isinstance(r, list) else [r])
                else:
                    out.append(r)
            if ok:
                if gi == 0:
                    self._rebind_objects(fr.env, sub.env)  # what the elements did to objects of the enclosing scope stays done
                if kind == "dict" and (last or all(isinstance(x, tuple) and len(x) == 2 for x in out)):
                    d = {}
                    for k, v in out:
                        if not tm.is_conc(k) or isinstance(k, (list, dict)):
                            return T("dict?", (), tm.DICT)
                        d[k] = v
                    return d
                return out
        if kind == "gen":
            kind = "list"
        d = sub.loopdepth
        composed = None
        if isinstance(it, T) and it.op == "map" and it.args[2] is None and tm.tyof(it) == tm.LIST:
            b0 = it.args[0]
            if isinstance(b0, _Obj):
                # [f(x) for x in [g(y) for y in src]] where g(y) is a record (an object with fields in terms of y): one pass over
                # src with x bound to that record
                idxs = {t_.args[0] for v_ in b0.fields.values() for t_ in tm.subterms(v_) if isinstance(t_, T) and t_.op == "bv"}
                carried = any(isinstance(t_, T) and t_.op == "acc" for v_ in b0.fields.values() for t_ in tm.subterms(v_))
                if len(idxs) <= 1 and not carried:  # (a record built from loop-carried state is not a function of the element alone)
                    k_ = next(iter(idxs)) if idxs else d
                    if k_ == d:
                        composed = b0
                    else:
                        composed = _Obj(b0.modname, b0.cls, {f_: tm.subst(v_, lambda t_: tm.bv(d, t_.ty) if isinstance(t_, T) and t_.op == "bv" and t_.args[0] == k_ else None)
                                                            for f_, v_ in b0.fields.items()}, tuple_like=b0.tuple_like)
                    it = _unfz(it.args[1]) if not isinstance(it.args[1], T) else it.args[1]
        sub.loopdepth = d + 1
        sub.iters[d] = it
        elem_ty = tm.INT if tm.tyof(it) == tm.BYTES else tm.ANY
        if composed is not None:
            self.assign(gen.target, composed, sub)
        elif isinstance(it, T) and it.op == "enumerate":
            self.assign(gen.target, (T("bvi", (d,), tm.INT), tm.bv(d)), sub)
        else:
            self.assign(gen.target, tm.bv(d, elem_ty), sub)
        cs = [self.truth_expr(c, sub) for c in gen.ifs]
        c = tm.land(cs)
        b = body(sub)
        if kind == "dict":
            b = T("kv", (tm._fz(b[0]), tm._fz(b[1])))
        return tm.mapt(tm._fz(b), it, None if c is True else c, tm.LIST if kind in ("list", "gen") else tm.DICT)

    # ---- calls
    def _next_of_genexp(self, e, fr):
        """next(ELT for x in SEQ if COND[, default]) over a sequence of known elements: the first element whose condition holds --
        an ite chain when some conditions are not decided; none holding is the default, or StopIteration (an exit of the function
        under "none holds"). NotImplemented when the call is not of that shape."""
        g = e.args[0]
        if len(g.generators) != 1 or g.generators[0].is_async or e.keywords or len(e.args) > 2:
            return NotImplemented
        gen = g.generators[0]
        sub = fr.fork()
        it = self.expr(gen.iter, sub)
        if isinstance(it, T) and it.op == "classref" and self.enum_iter(it) is not None:
            it = self.enum_iter(it)
        if isinstance(it, _Obj) and not it.tuple_like:
            it = self.obj_iter(it, gen.iter, sub)
        seq = _concrete_iter(it) if it is not None and not isinstance(it, (str, bytes, dict)) else None
        if seq is None or len(seq) > 64:
            return NotImplemented
        found = []
        for x in seq:
            self.assign(gen.target, x, sub)
            c = tm.land([self.decide(self.truth_expr(c_, sub)) for c_ in gen.ifs])
            if c is False:
                continue
            found.append((c, self.expr(g.elt, sub)))
            if c is True:
                break
        if found and found[-1][0] is True:
            out = found[-1][1]
            rest = found[:-1]
        else:
            conds = tm.lor([c for c, _v in found]) if found else False
            if len(e.args) == 2:
                out = self.expr(e.args[1], fr)
            else:
                f2 = fr.fork(tm.lnot(conds))
                f2.summary.exits.append(Exit(f2.guard, "raise", None, e, fr.fi.qualname if fr.fi else "<module>", exc="StopIteration", facts=fr.facts))
                if not found:
                    return T("raise", ("StopIteration",))
                fr.facts.append(conds)
                out = found[-1][1]
                found = found[:-1]
            rest = found
        for c, v in reversed(rest):
            out = v if tm.veq(v, out) else tm.ite(c, v, out)
        return out

    def e_Call(self, e, fr):
        if isinstance(e.func, ast.Name) and e.func.id == "next" and "next" not in fr.env and e.args and isinstance(e.args[0], ast.GeneratorExp) and \
                e.args[0].generators[0].ifs and self.prog.lookup(fr.modname, "next") is None:
            r_ = self._next_of_genexp(e, fr)
            if r_ is not NotImplemented:
                return r_
        pos = []
        for a in e.args:
            if isinstance(a, ast.Starred):
                v = self.expr(a.value, fr)
                if isinstance(v, _Obj) and v.tuple_like:
                    v = tuple(v.fields.values())  # f(*record): a NamedTuple unpacks into its fields
                if isinstance(v, (tuple, list)):
                    pos.extend(v)
                else:
                    pos.append(T("starred", (tm._fz(v),)))
            else:
                pos.append(self.expr(a, fr))
        kw = {}
        for k in e.keywords:
            if k.arg is None:
                v = self.expr(k.value, fr)
                if isinstance(v, dict) and all(isinstance(x, str) for x in v):
                    kw.update(v)
                else:
                    kw["**"] = v
            else:
                kw[k.arg] = self.expr(k.value, fr)
        f = e.func
        # method call on a value
        if isinstance(f, ast.Attribute):
            parts = dotted_parts(f)
            is_global_chain = parts is not None and parts[0] not in fr.env and ".".join(parts[:-1]) not in fr.env
            if is_global_chain:
                r = self.prog.resolve_chain(fr.modname, parts)
                if r is None:
                    # maybe a method on a module-level constant, e.g. TABLE.items()
                    r0 = self.prog.resolve_chain(fr.modname, parts[:-1])
                    if r0 is not None and r0[0] in ("const", "attr"):
                        return self.method(self.ref(r0), parts[-1], pos, kw, e, fr)
                    if r0 is None and parts[0] in ("int", "bytes", "str", "dict", "list"):
                        return self.extern(".".join(["builtins"] + parts), pos, kw, e, fr)
                    return self.extern(".".join(parts), pos, kw, e, fr)
                if r[0] == "attr":
                    return self.method(self.ref(r[1]), r[2], pos, kw, e, fr)
                return self.call_ref(r, pos, kw, e, fr)
            recv = self.expr(f.value, fr)
            if f.attr in _MUTATORS and not isinstance(recv, (str, bytes, int, float, _Obj)) and tm.tyof(recv) in (tm.LIST, tm.DICT, tm.ANY, tm.BYTES):
                return self.mutating_call(f.value, recv, f.attr, pos, kw, e, fr)
            return self.method(recv, f.attr, pos, kw, e, fr)
        if isinstance(f, ast.Name):
            if f.id in fr.env:
                fv = fr.env[f.id]
                return self.call_value(fv, pos, kw, e, fr)
            r = self.prog.lookup(fr.modname, f.id)
            if r is None:
                return self.extern("builtins." + f.id, pos, kw, e, fr)
            return self.call_ref(r, pos, kw, e, fr)
        fv = self.expr(f, fr)
        return self.call_value(fv, pos, kw, e, fr)

    def mutating_call(self, recv_node, recv, meth, pos, kw, e, fr):
        """A mutating container method in expression position (x = stack.pop(), d.setdefault(k, v)): done on a concrete
        container with a concrete key; otherwise the value is the generic method term and the container is marked mutated."""
        def conc_key(k):
            return tm.is_conc(k) and not isinstance(k, (list, dict, T))
        try:
            if isinstance(recv, list) and meth == "pop" and not kw and (not pos or (len(pos) == 1 and isinstance(pos[0], int) and not isinstance(pos[0], bool))):
                return recv.pop(*pos)
            if isinstance(recv, list) and meth == "popleft" and not pos and not kw:
                return recv.pop(0)
            if isinstance(recv, dict) and meth == "pop" and not kw and 1 <= len(pos) <= 2 and conc_key(pos[0]) and all(conc_key(k) for k in recv):
                if pos[0] in recv or len(pos) == 2:
                    return recv.pop(*pos)
            if isinstance(recv, dict) and meth == "setdefault" and not kw and 1 <= len(pos) <= 2 and conc_key(pos[0]) and all(conc_key(k) for k in recv):
                return recv.setdefault(pos[0], pos[1] if len(pos) == 2 else None)
        except (IndexError, KeyError):
            return T("raise", ("IndexError" if isinstance(recv, list) else "KeyError",))
        res = self.method(recv, meth, pos, kw, e, fr)
        mark = T("mutated", (meth, tm._fz(recv)) + tuple(tm._fz(a) for a in pos), tm.tyof(recv) if tm.tyof(recv) != tm.ANY else (tm.LIST if isinstance(recv, list) else tm.DICT if isinstance(recv, dict) else tm.ANY))
        if isinstance(recv_node, ast.Name):
            if recv_node.id in fr.env:
                fr.env[recv_node.id] = mark
        elif isinstance(recv_node, ast.Attribute):
            parts = dotted_parts(recv_node)
            if parts:
                fr.env[".".join(parts)] = mark
        elif isinstance(recv_node, ast.Subscript):
            nm = _root_name(recv_node)
            if nm and nm in fr.env:
                fr.env[nm] = T("mutated", (meth, tm._fz(fr.env[nm]), tm._fz(recv)) + tuple(tm._fz(a) for a in pos), tm.tyof(fr.env[nm]))
        return res

    _HARMLESS_DECORATORS = ("functools.wraps", "functools.lru_cache", "functools.cache", "staticmethod", "classmethod", "property", "typing.overload",
                            "functools.singledispatch", "abc.abstractmethod", "dataclasses.dataclass", "dataclass", "functools.cached_property", "cached_property",
                            "functools.total_ordering", "typing.final", "contextlib.contextmanager")

    def _package_decorators(self, fi, fr):
        """Decorators of a module-level function that are functions of the package (they replace the function by what they
        return); memoisation / metadata decorators of the standard library leave behaviour unchanged and are skipped."""
        out = []
        for d in getattr(fi.node, "decorator_list", []):
            target = d.func if isinstance(d, ast.Call) else d
            parts = dotted_parts(target)
            if not parts:
                raise AnalysisError("decorator of %s not modelled: %s" % (fi.qualname, ast.unparse(d)[:60]))
            r = self.prog.resolve_chain(fi.module.name, parts)
            name = ".".join(parts)
            if r is None or r[0] == "extern":
                full = r[1] if r is not None else name
                if any(full == h or full.endswith("." + h) or name == h for h in self._HARMLESS_DECORATORS):
                    continue
                raise AnalysisError("decorator of %s not modelled: %s" % (fi.qualname, ast.unparse(d)[:60]))
            if r[0] != "func":
                raise AnalysisError("decorator of %s not modelled: %s" % (fi.qualname, ast.unparse(d)[:60]))
            dv = T("fn", (r[1].qualname,))
            if isinstance(d, ast.Call):  # a decorator factory: decorator(args)(f)
                mfr = Frame(self, fi.module.name, None, Summary(None), 0)
                dv = self.call_value(dv, [self.expr(a, mfr) for a in d.args], {k.arg: self.expr(k.value, mfr) for k in d.keywords if k.arg}, d, fr)
            out.append(dv)
        return out

    def call_value(self, fv, pos, kw, e, fr):
        if isinstance(fv, T) and fv.op == "lambda" and not kw:
            r = self.apply_lambda(fv, list(pos), fr)
            if r is not None:
                return r
        if isinstance(fv, _Closure):
            # free variables are read where they live: in the enclosing function's CURRENT bindings when it is the caller itself
            # (a local helper), else in the bindings the closure captured. Names the helper declares `nonlocal` are written back.
            parent_q = fv.fi.qualname.rsplit(".<locals>.", 1)[0]
            cenv = fr.env if (fr.fi is not None and fr.fi.qualname == parent_q) else fv.env
            nl = _nonlocal_names(fv.fi.node)
            if not nl:
                return self.call_fn(fv.fi, pos, kw, e, fr, closure_env=cenv)
            self._last_sub = None
            r = self.call_fn(fv.fi, pos, kw, e, fr, closure_env=cenv)
            sub_ = self._last_sub
            if sub_ is None or sub_.fi is not fv.fi or not isinstance(getattr(sub_, "env", None), dict):
                raise AnalysisError("a helper that rebinds nonlocal names (%s) could not be inlined" % fv.fi.qualname)
            for nm_ in nl:
                if nm_ in sub_.env:
                    cenv[nm_] = sub_.env[nm_]
            return r
        if isinstance(fv, T) and fv.op == "fnraw":
            return self.call_fn(self.prog.function(fv.args[0]), pos, kw, e, fr, raw=True)
        if isinstance(fv, T) and fv.op == "partial":
            p_fn, p_pos, p_kw = fv.args[0], list(_unfz(fv.args[1])), dict(_unfz(fv.args[2]))
            p_kw.update(kw)
            return self.call_value(_unfz(p_fn) if not isinstance(p_fn, (T, _Closure)) else p_fn, p_pos + list(pos), p_kw, e, fr)
        if isinstance(fv, T) and fv.op == "itemgetter" and len(pos) == 1 and not kw:
            keys = [_unslice(k) for k in fv.args]
            vals = [self.subscript_value(pos[0], k, e, fr) for k in keys]
            return vals[0] if len(vals) == 1 else tuple(vals)
        if isinstance(fv, T) and fv.op == "attrgetter" and len(pos) == 1 and not kw and len(fv.args) == 1 and "." not in fv.args[0]:
            return self.getattr_value(pos[0], fv.args[0])
        if isinstance(fv, T) and fv.op == "attr" and len(fv.args) == 2 and isinstance(fv.args[1], str):
            return self.method(_unfz(fv.args[0]), fv.args[1], list(pos), kw, e, fr)  # x.method held as a value and called later
        if isinstance(fv, T) and fv.op == "boundmethod":
            return self.method(_unfz(fv.args[0]) if not isinstance(fv.args[0], (T, _Obj)) else fv.args[0], fv.args[1], list(pos), kw, e, fr)
        if isinstance(fv, T) and fv.op == "fn":
            return self.call_fn(self.prog.function(fv.args[0]), pos, kw, e, fr)
        if isinstance(fv, T) and fv.op == "classref" and len(fv.args) == 1 and "." in fv.args[0]:
            cmod, ccls = fv.args[0].rsplit(".", 1)
            obj = self.instantiate(cmod, ccls, list(pos), kw, e, fr)  # cls(...) inside a classmethod
            if obj is not None:
                return obj
        if isinstance(fv, T) and fv.op == "ext":
            return self.extern(fv.args[0], pos, kw, e, fr)
        if isinstance(fv, T) and fv.op == "ext" and isinstance(fv.args[0], str):
            return self.extern(fv.args[0], pos, kw, e, fr)  # a library function held in a variable or a table
        if isinstance(fv, T) and fv.op == "ite":
            # a callable chosen by a condition (a strategy): each alternative is called under its own condition
            c_ = fv.args[0]
            f1, f2 = fr.fork(c_), fr.fork(tm.lnot(c_))
            f1.facts.append(c_)
            f2.facts.append(tm.lnot(c_))
            a_ = fv.args[1] if isinstance(fv.args[1], (T, _Closure, _Obj)) else _unfz(fv.args[1])
            b_ = fv.args[2] if isinstance(fv.args[2], (T, _Closure, _Obj)) else _unfz(fv.args[2])
            r1 = self.call_value(a_, pos, kw, e, f1)
            r2 = self.call_value(b_, pos, kw, e, f2)
            return r1 if tm.veq(r1, r2) else tm.ite(c_, r1, r2)
        fr.summary.calls.append(("value:" + tm.show(fv), pos, kw, e, tuple(fr.guard), tuple(fr.facts), dict(fr.iters)))
        r = tm.app("call", [fv] + pos, tuple(sorted(kw.items())))
        self._opaque_log.append(r)
        return r

    def call_ref(self, r, pos, kw, e, fr):
        if r[0] == "func":
            if r[1].cls and "classmethod" in {ast.unparse(d) for d in r[1].node.decorator_list}:
                pos = [T("classref", (r[1].module.name + "." + r[1].cls,))] + list(pos)  # Class.method(...): cls is the class
            return self.call_fn(r[1], pos, kw, e, fr)
        if r[0] == "classattr":
            return self.call_value(self.ref(r), pos, kw, e, fr)
        if r[0] == "extern":
            return self.extern(r[1], pos, kw, e, fr)
        if r[0] == "class":
            name = r[1].name + "." + r[2]
            obj = self.instantiate(r[1].name, r[2], pos, kw, e, fr)
            if obj is not None:
                return obj
            fr.summary.calls.append((name, pos, kw, e, tuple(fr.guard), tuple(fr.facts), dict(fr.iters)))
            return tm.app("new:" + name, pos, tuple(sorted(kw.items())))
        if r[0] == "const":
            return self.call_value(self.const(r[1].name, r[2]), pos, kw, e, fr)
        return tm.app("call?", pos)

    def instantiate(self, modname, cls, pos, kw, e, fr):
        """Create an instance of a small package class: a NamedTuple / dataclass (fields from the annotated class body), or a
        class whose __init__ can be inlined. None when the class is not of that kind (the call stays opaque)."""
        m = self.prog.modules.get(modname)
        node = m.classnodes.get(cls) if m is not None else None
        if node is None:
            return None
        bases = {(".".join(dotted_parts(b) or ["?"])).split(".")[-1] for b in node.bases}
        decos = {(".".join(dotted_parts(d.func if isinstance(d, ast.Call) else d) or ["?"])).split(".")[-1] for d in node.decorator_list}
        meths, assigns = self.class_members(modname, cls)
        if bases & self._ENUM_BASES and len(pos) == 1 and not kw and tm.is_conc(pos[0]) and not isinstance(pos[0], (T, _Obj)):
            # Enum lookup by value: the member whose value equals the argument, ValueError when there is none
            mems = self.enum_members(modname, cls)
            if mems is not None and all(isinstance(mv, _Obj) or (tm.is_conc(mv) and not isinstance(mv, T)) for _n, mv in mems):
                for _n, mv in mems:
                    v_ = mv.fields.get("value") if isinstance(mv, _Obj) else mv
                    if tm.is_conc(v_) and not isinstance(v_, (T, _Obj)) and (type(v_) == type(pos[0]) or (isinstance(v_, (int, str)) and isinstance(pos[0], (int, str)) and
                                                                                  isinstance(v_, int) == isinstance(pos[0], int) and not isinstance(pos[0], bool))) and v_ == pos[0]:
                        if e is not None:
                            self.__dict__.setdefault("_inert_calls", set()).add(id(e))  # decided on constants: this call raised nothing
                        return mv
                if "_missing_" in meths:
                    # the class's own fallback for values without a member: what it returns is the result (None: ValueError)
                    c0_, h0_, x0_ = len(fr.summary.calls), len(fr.summary.hazards), len(fr.summary.exits)
                    r_ = self.call_fn(meths["_missing_"], [T("classref", (modname + "." + cls,)), pos[0]], {}, e, fr)
                    if (r_ is None or isinstance(r_, (_Obj, _EnumInt, _EnumStr))) and len(fr.summary.hazards) == h0_ and len(fr.summary.exits) == x0_:
                        del fr.summary.calls[c0_:]  # decided on constants, like the lookup itself
                        if e is not None:
                            self.__dict__.setdefault("_inert_calls", set()).add(id(e))
                    if r_ is None:
                        return T("raise", ("ValueError",))
                    return r_
                if all(tm.is_conc(mv.fields.get("value") if isinstance(mv, _Obj) else mv) for _n, mv in mems):
                    if e is not None:
                        self.__dict__.setdefault("_inert_calls", set()).add(id(e))  # decided on constants: ValueError and nothing else
                    return T("raise", ("ValueError",))
        if bases & self._ENUM_BASES and len(pos) == 1 and not kw and isinstance(pos[0], T) and tm.tyof(pos[0]) in (tm.INT, tm.ANY, tm.STR, tm.BYTES) and fr is not None:
            # Enum lookup by a value that is not known: the member whose value it equals; when it equals none the lookup raises
            # (ValueError, or what a `_missing_` that does nothing but raise says) -- an exit of the function under "equals none"
            mems = self.enum_members(modname, cls)
            exc_ = "ValueError"
            simple = True
            if "_missing_" in meths:
                body_ = [b for b in meths["_missing_"].node.body if not (isinstance(b, ast.Expr) and isinstance(b.value, ast.Constant))]
                if len(body_) == 1 and isinstance(body_[0], ast.Raise) and body_[0].exc is not None:
                    x_ = body_[0].exc
                    exc_ = ".".join(dotted_parts(x_.func if isinstance(x_, ast.Call) else x_) or ["?"])
                elif not (len(body_) == 1 and isinstance(body_[0], ast.Return) and (body_[0].value is None or (isinstance(body_[0].value, ast.Constant) and body_[0].value.value is None))):
                    simple = False
            vals_ = []
            for _n, mv in (mems or []):
                v_ = mv.fields.get("value") if isinstance(mv, _Obj) else mv
                if not tm.is_conc(v_) or isinstance(v_, (T, list, dict)) or any(type(v_) == type(u_) and v_ == u_ for u_, _m in vals_):
                    continue
                vals_.append((v_, mv))
            if mems and simple and vals_ and len(vals_) <= 16:
                if e is not None:
                    self.__dict__.setdefault("_inert_calls", set()).add(id(e))  # fully modelled: its one way to fail is the exit below
                eqs = [tm.cmp("eq", pos[0], int(v_) if isinstance(v_, _EnumInt) else (str(v_) if isinstance(v_, _EnumStr) else v_)) for v_, _m in vals_]
                anyc = self.decide_in(tm.lor(eqs), fr) if hasattr(self, "decide_in") else tm.lor(eqs)
                if anyc is not True:
                    f2 = fr.fork(tm.lnot(anyc))
                    f2.summary.exits.append(Exit(f2.guard, "raise", None, e, fr.fi.qualname if fr.fi else "<module>", exc=exc_, facts=fr.facts))
                    if anyc is False:
                        return T("raise", (exc_,))
                    fr.facts.append(anyc)
                out_ = vals_[-1][1]
                for c_, (_v, mv) in reversed(list(zip(eqs[:-1], vals_[:-1]))):
                    out_ = tm.ite(c_, mv, out_)
                return out_
        if "NamedTuple" in bases or "dataclass" in decos:
            names, defaults, noinit = [], {}, []
            for mn, st in assigns:
                if isinstance(st, ast.AnnAssign) and isinstance(st.target, ast.Name) and "ClassVar" not in ast.unparse(st.annotation):
                    v0 = st.value
                    if isinstance(v0, ast.Call) and (dotted_parts(v0.func) or ["?"])[-1] == "field" and "dataclass" in decos:
                        # dataclasses.field(default=.., default_factory=.., init=False, ...)
                        kws = {k.arg: k.value for k in v0.keywords}
                        f0 = Frame(self, mn, None, Summary(None), 0)
                        if "init" in kws and isinstance(kws["init"], ast.Constant) and kws["init"].value is False:
                            noinit.append(st.target.id)
                        else:
                            names.append(st.target.id)
                        if "default" in kws:
                            defaults[st.target.id] = self.expr(kws["default"], f0)
                        elif "default_factory" in kws:
                            defaults[st.target.id] = self.call_value(self.expr(kws["default_factory"], f0), [], {}, v0, fr)
                        continue
                    names.append(st.target.id)
                    if v0 is not None:
                        defaults[st.target.id] = self.expr(v0, Frame(self, mn, None, Summary(None), 0))
            if len(pos) > len(names) or any(k not in names for k in kw):
                return T("raise", ("TypeError",))
            fields = {}
            for nme, v in zip(names, pos):
                fields[nme] = v
            for k, v in kw.items():
                if k in fields:
                    return T("raise", ("TypeError",))
                fields[k] = v
            for nme in names:
                if nme not in fields:
                    if nme not in defaults:
                        return T("raise", ("TypeError",))
                    fields[nme] = defaults[nme]
            for nme in noinit:
                if nme in defaults:
                    fields[nme] = defaults[nme]  # otherwise the field exists only once __post_init__ has set it
            obj = _Obj(modname, cls, {nme: fields[nme] for nme in names + noinit if nme in fields}, tuple_like="NamedTuple" in bases)
            if "dataclass" in decos and not any(isinstance(d, ast.Call) and any(k.arg == "eq" and isinstance(k.value, ast.Constant) and k.value.value is False for k in d.keywords)
                                                 for d in node.decorator_list):
                obj.value_eq = tuple(names)  # a dataclass compares field by field (fields with compare=False aside)
            if "dataclass" in decos and "__post_init__" in meths:
                self.call_fn(meths["__post_init__"], [obj], {}, e, fr)
            return obj
        if not self._plain_bases(modname, node) or (modname + "." + cls + ".__init__") in self.policy.opaque or not getattr(self, "model_objects", True):
            return None
        if len(meths) > 12:
            return None  # a large stateful class (the P2P node): its instances stay opaque
        obj = _Obj(modname, cls, {})
        if "__init__" in meths:
            self.call_fn(meths["__init__"], [obj] + list(pos), kw, e, fr)
        elif pos or kw:
            return T("raise", ("TypeError",))
        return obj

    _MIXIN_BASES = {"object", "ABC", "Protocol", "Generic", "Sequence", "Mapping", "Iterable", "Iterator", "Collection", "Container", "Sized", "Hashable", "Reversible"}

    def _plain_bases(self, modname, node, depth=0):
        """Every base of the class is `object`, an abstract-base / protocol marker (they add no state; the collections.abc mixins add
        only methods defined in terms of the class's own __getitem__ / __len__ / __iter__), or a package class of that kind."""
        if depth > 4 or any(k.arg == "metaclass" and (dotted_parts(k.value) or ["?"])[-1] != "ABCMeta" for k in node.keywords):
            return False
        for b in node.bases:
            b0 = b.value if isinstance(b, ast.Subscript) else b  # Generic[T]
            parts = dotted_parts(b0) or ["?"]
            if parts[-1] in self._MIXIN_BASES and (len(parts) == 1 or parts[0] in ("abc", "typing", "collections")):
                r = self.prog.resolve_chain(modname, parts)
                if r is None or r[0] != "class":
                    continue
            r = self.prog.resolve_chain(modname, parts)
            if r is None or r[0] != "class":
                return False
            bn = r[1].classnodes.get(r[2])
            if bn is None or not self._plain_bases(r[1].name, bn, depth + 1):
                return False
        return True

    def call_fn(self, fi, pos, kw, e, fr, skip_self=False, closure_env=None, raw=False):
        q = self.policy.alias.get(fi.qualname, fi.qualname)
        if not raw and closure_env is None and q not in self.policy.prims and q not in self.policy.opaque:
            deco = self._package_decorators(fi, fr)
            if deco:
                # @decorator def f(...): calling f is calling decorator(f)(...), innermost decorator first
                fv = T("fnraw", (q,))
                for d in reversed(deco):
                    fv = self.call_value(d, [fv], {}, e, fr)
                return self.call_value(fv, pos, kw, e, fr)
        fr.summary.calls.append((q, pos, kw, e, tuple(fr.guard), tuple(fr.facts), dict(fr.iters)))
        bound = self.bind_call(fi, pos, kw, skip_self=skip_self)
        prim = self.policy.prims.get(q)
        if prim is not None and bound is not None:
            r = prim(self, bound, fr, e)
            if r is not NotImplemented:
                return r
        opaque = q in self.policy.opaque or (self.policy.opaque_pred and self.policy.opaque_pred(q))
        recursive = q in self._stack or fi.qualname in self._stack
        if recursive and bound is not None and not opaque:
            # a function calling itself (iteration written as recursion) is inlined beyond the usual nesting limit only while it
            # makes progress on something concrete: some argument of known structure (a list / tuple / dict of known length, a
            # concrete number or string) differs from what the enclosing activation of the same function received. Recursion
            # over purely symbolic arguments (a parser calling itself on an unknown buffer) keeps the old limit.
            prev = self.__dict__.setdefault("_rec_args", {}).get(fi.qualname)
            progress = bool(prev) and any(
                isinstance(v_, (list, tuple, dict, int, bytes, str)) and not isinstance(v_, bool) and k_ in prev[-1] and
                not (isinstance(prev[-1][k_], type(v_)) and tm.veq(tm.freeze(v_) if isinstance(v_, (list, tuple, dict)) else v_,
                                                                  tm.freeze(prev[-1][k_]) if isinstance(prev[-1][k_], (list, tuple, dict)) else prev[-1][k_]))
                for k_, v_ in bound.items())
            if progress:
                self._rec_budget = getattr(self, "_rec_budget", 400) - 1
            else:
                recursive = False
        too_deep = (fr.depth >= self.policy.max_depth or self._stack.count(q) >= 4) if not recursive else (getattr(self, "_rec_budget", 400) <= 0 or self._stack.count(q) >= 80)
        if bound is None or opaque or too_deep:
            rty = ann_type(fi.node.returns)
            if bound is not None:
                names = [p for p in fi.params() if p in bound]
                a = fi.node.args
                if a.vararg is not None and a.vararg.arg in bound and a.vararg.arg not in names:
                    names.append(a.vararg.arg)  # f(x, *rest): different `rest` must give different terms
                names += [p.arg for p in a.kwonlyargs if p.arg in bound]
                if a.kwarg is not None and a.kwarg.arg in bound and bound[a.kwarg.arg]:
                    names.append(a.kwarg.arg)
                r = tm.app(q, [bound[n] for n in names], ty=rty)
                self._opaque_log.append(r)
                return r
            r = tm.app(q, pos, tuple(sorted(kw.items())), ty=rty)
            self._opaque_log.append(r)
            return r
        self.__dict__.setdefault("_rec_args", {}).setdefault(fi.qualname, []).append(dict(bound))
        try:
            sub = self.run(fi, bound, depth=fr.depth if recursive else fr.depth + 1, closure_env=closure_env)
        finally:
            self._rec_args[fi.qualname].pop()
        self._last_sub = sub
        self._copy_out(fi, sub, e, fr, skip_self)
        fr.summary.loops.extend(sub.loops)
        fr.summary.hazards.extend((h[0], h[1], h[2], tuple(fr.guard) + tuple(h[3]), tuple(fr.facts) + tuple(h[4]), h[5],
                                   _merge_iters(fr.iters, h[6] if len(h) > 6 else {})) for h in sub.hazards)
        fr.summary.calls.extend((c[0], c[1], c[2], c[3], tuple(fr.guard) + tuple(c[4]),
                                 tuple(fr.facts) + tuple(c[5] if len(c) > 5 else ()),
                                 _merge_iters(fr.iters, c[6] if len(c) > 6 else {})) for c in sub.calls)
        # exits form an ordered decision list: the negation of a raise guard is a fact for the caller only while no
        # (conditional) return precedes it in the callee
        seen_return = False
        nret = len(sub.returns())
        not_returned = []  # a raise that follows conditional returns in the callee happens only if none of them was taken
        for ex in sub.exits:
            if ex.kind == "return":
                nret -= 1
                if nret > 0 or tm.land(list(ex.guard)) is not True:
                    seen_return = True
                rg = tm.land(list(ex.guard))
                if rg is not True and rg is not False:
                    not_returned.append(tm.lnot(rg))
                continue
            fr.summary.exits.append(Exit(tuple(fr.guard) + tuple(not_returned) + ex.guard, "raise", ex.value, ex.node, ex.func, ex.exc,
                                         facts=tuple(fr.facts) + ex.facts))
            g = tm.land(list(ex.guard))
            if g is not True and not seen_return:
                fr.facts.append(tm.lnot(g))
        rets = sub.returns()
        if len(rets) == 1 and tm.land(list(rets[0].guard)) is True:
            # a single unconditional return: whatever held at it holds after the call (e.g. for-all facts of loops)
            for f in rets[0].facts:
                if isinstance(f, T) and f.op == "forall" and not any(tm.veq(f, g0) for g0 in fr.facts):
                    fr.facts.append(f)
        val_ = self.under_facts(sub.value(), fr)
        if isinstance(val_, list) and _is_generator(fi.node) and os.environ.get("SA_GEN_AS_LIST") != "1":
            # calling a generator function hands out ONE iterator object: whoever consumes it (a loop, list(), zip, a second
            # consumer) advances the same object -- a generator iterated twice is empty the second time
            val_ = _Iter(val_)
        return val_

    def _copy_out(self, fi, sub, e, fr, skip_self=False):
        """An out-parameter: the callee appends to a buffer / list the caller handed it (`out += x` on a parameter annotated
        bytearray / list, `out.extend(x)`, `out.append(x)`). Buffers are modelled as values, so the in-place change is carried
        back by hand: after the call the caller's variable holds what the callee's parameter held at its end. Only for callees
        that end by falling off their last statement (one final state) and for arguments that are plain names."""
        cache = self.__dict__.setdefault("_outparams", {})
        if fi.qualname not in cache:
            params = [a.arg for a in fi.node.args.posonlyargs + fi.node.args.args + fi.node.args.kwonlyargs]
            ann = {a.arg: (ast.unparse(a.annotation) if a.annotation is not None else "") for a in fi.node.args.posonlyargs + fi.node.args.args + fi.node.args.kwonlyargs}
            muts = set()
            body = fi.node.body
            early = [n for st in body[:-1] for n in ast.walk(st) if isinstance(n, ast.Return)] + \
                    [n for n in ast.walk(body[-1]) if isinstance(n, ast.Return) and n is not body[-1]] if body else []
            rebound = {t.id for n in ast.walk(fi.node) if isinstance(n, ast.Assign) for t in n.targets if isinstance(t, ast.Name)}
            if not early:
                for n in ast.walk(fi.node):
                    if isinstance(n, ast.AugAssign) and isinstance(n.target, ast.Name) and n.target.id in params and isinstance(n.op, ast.Add) and \
                            any(k in ann.get(n.target.id, "") for k in ("bytearray", "list", "List", "deque", "MutableSequence")):
                        muts.add(n.target.id)
                    if isinstance(n, ast.Call) and isinstance(n.func, ast.Attribute) and isinstance(n.func.value, ast.Name) and n.func.value.id in params and \
                            n.func.attr in ("extend", "append", "insert", "update", "add", "setdefault", "appendleft", "extendleft"):
                        muts.add(n.func.value.id)
            cache[fi.qualname] = [p_ for p_ in params if p_ in muts and p_ not in rebound]
        outs = cache[fi.qualname]
        if not outs or not isinstance(e, ast.Call) or not isinstance(getattr(sub, "env", None), dict):
            return
        params = [a.arg for a in fi.node.args.posonlyargs + fi.node.args.args]
        if skip_self or (fi.cls and params and params[0] in ("self", "cls") and isinstance(e.func, ast.Attribute)):
            params = params[1:]
        argnode = dict(zip(params, e.args))
        argnode.update({k.arg: k.value for k in e.keywords if k.arg})
        for p_ in outs:
            nd = argnode.get(p_)
            if isinstance(nd, ast.Name) and nd.id in fr.env and p_ in sub.env:
                cur, new = fr.env[nd.id], sub.env[p_]
                if isinstance(cur, (list, dict, _Obj, _BytesIO)) and cur is new:
                    continue  # already shared by reference
                if tm.tyof(cur) in (tm.BYTES, tm.LIST, tm.ANY) or isinstance(cur, (bytes, list)):
                    fr.env[nd.id] = new

    # ---- methods on values
    def method(self, recv, meth, pos, kw, e, fr):
        if any(isinstance(x_, _Iter) for x_ in pos):
            pos = [(_concrete_iter(x_) if isinstance(x_, _Iter) else x_) for x_ in pos]  # sep.join(gen), lst.extend(gen): consumed
        if isinstance(recv, _BytesIO):
            if meth == "read" and len(pos) <= 1 and not kw:
                n_ = pos[0] if pos else None
                if n_ is None or n_ == -1:
                    out = tm.slc(recv.buf, recv.pos, None) if recv.pos != 0 else recv.buf
                    recv.pos = tm.length(recv.buf)
                    return out
                end = tm.add([recv.pos, n_])
                out = tm.slc(recv.buf, recv.pos, end)
                ln = tm.blen(recv.buf)
                # a read past the end returns what is there: the position never exceeds the length
                recv.pos = end if not isinstance(ln, int) or not isinstance(end, int) else min(end, ln)
                return out
            if meth == "write" and len(pos) == 1:
                recv.buf = tm.cat([recv.buf, pos[0]])
                recv.pos = tm.length(recv.buf)
                return tm.length(pos[0])
            if meth in ("getvalue", "getbuffer") and not pos:
                return recv.buf
            if meth == "tell" and not pos:
                return recv.pos
            if meth == "seek" and pos and pos[0] == 0 and (len(pos) == 1 or pos[1] == 0):
                recv.pos = 0
                return 0
            if meth == "close":
                return None
            raise AnalysisError("io.BytesIO.%s not modelled" % meth)
        if isinstance(recv, T) and recv.op == "ite" and all(isinstance(a_, (_EnumInt, _EnumStr)) for a_ in recv.args[1:]) and \
                all(meth in self.class_members(a_.modname, a_.cls)[0] for a_ in recv.args[1:]):
            x_, y_ = self.method(recv.args[1], meth, list(pos), kw, e, fr), self.method(recv.args[2], meth, list(pos), kw, e, fr)
            return x_ if tm.veq(x_, y_) else tm.ite(recv.args[0], x_, y_)
        if isinstance(recv, (_EnumInt, _EnumStr)):
            meths_, _a = self.class_members(recv.modname, recv.cls)
            if meth in meths_:
                decos_ = {ast.unparse(d) for d in meths_[meth].node.decorator_list}
                if "classmethod" in decos_:
                    return self.call_fn(meths_[meth], [T("classref", (recv.modname + "." + recv.cls,))] + list(pos), kw, e, fr)
                if "staticmethod" in decos_:
                    return self.call_fn(meths_[meth], list(pos), kw, e, fr)
                return self.call_fn(meths_[meth], [recv] + list(pos), kw, e, fr)
        if isinstance(recv, _Obj):
            meths, _assigns = self.class_members(recv.modname, recv.cls)
            if meth in meths:
                decos = {ast.unparse(d) for d in meths[meth].node.decorator_list}
                if "staticmethod" in decos:
                    return self.call_fn(meths[meth], list(pos), kw, e, fr)
                if "classmethod" in decos:
                    return self.call_fn(meths[meth], [T("classref", (recv.modname + "." + recv.cls,))] + list(pos), kw, e, fr)
                return self.call_fn(meths[meth], [recv] + list(pos), kw, e, fr)
            if recv.tuple_like and meth == "_asdict" and not pos:
                return dict(recv.fields)
            if recv.tuple_like and meth == "_replace" and not pos:
                o = clone(recv)
                o.fields.update(kw)
                return o
            if meth in recv.fields:
                return self.call_value(recv.fields[meth], list(pos), kw, e, fr)
            raise AnalysisError("method %s of %s.%s not modelled" % (meth, recv.modname, recv.cls))
        if isinstance(recv, T) and recv.op == "classref":
            cmod, ccls = recv.args[0].rsplit(".", 1)
            meths, _assigns = self.class_members(cmod, ccls)
            if meth in meths:
                decos = {ast.unparse(d) for d in meths[meth].node.decorator_list}
                if "classmethod" in decos:
                    return self.call_fn(meths[meth], [recv] + list(pos), kw, e, fr)
                if "staticmethod" in decos:
                    return self.call_fn(meths[meth], list(pos), kw, e, fr)
            if meth == "_make" and len(pos) == 1 and not kw:
                # NamedTuple._make(iterable): the fields in order
                cnode = self.prog.modules[cmod].classnodes.get(ccls) if cmod in self.prog.modules else None
                if cnode is not None and any((dotted_parts(b) or ["?"])[-1] == "NamedTuple" for b in cnode.bases):
                    names = [st.target.id for _mn, st in _assigns if isinstance(st, ast.AnnAssign) and isinstance(st.target, ast.Name)]
                    src = _unfz(pos[0]) if not isinstance(pos[0], (T, _Obj)) else pos[0]
                    if isinstance(src, _Obj) and src.tuple_like:
                        src = list(src.fields.values())
                    if isinstance(src, (list, tuple)):
                        vals = list(src)
                    elif isinstance(src, T):
                        vals = [T("proj", (src, i), tm.ANY) for i in range(len(names))]
                    else:
                        vals = None
                    if vals is not None:
                        obj = self.instantiate(cmod, ccls, vals, {}, e, fr)
                        if obj is not None:
                            return obj
        ty = tm.tyof(recv)
        fr.summary.calls.append(("method:" + meth, [recv] + list(pos), kw, e, tuple(fr.guard), tuple(fr.facts), dict(fr.iters)))
        if isinstance(recv, T) and recv.op == "ite" and meth not in ("append",):
            return tm.ite(recv.args[0], self.method(_unfz(recv.args[1]), meth, pos, kw, e, fr),
                          self.method(_unfz(recv.args[2]), meth, pos, kw, e, fr))
        if meth == "to_bytes":
            w = pos[0] if pos else kw.get("length", 1)
            en = pos[1] if len(pos) > 1 else kw.get("byteorder", "big")
            if ty == tm.BYTES:
                return T("raise", ("AttributeError", "bytes.to_bytes"))
            if kw.get("signed", False) is not False:
                return T("i2b_signed", (recv, w, en, kw.get("signed")), tm.BYTES)
            return tm.i2b(recv, w, en)
        if meth == "hex" and not pos:
            return tm.hexs(recv)
        if isinstance(recv, T) and recv.op == "structobj" and not kw:
            lay = _struct_layout(recv.args[0])
            if lay is not None:
                if meth == "unpack" and len(pos) == 1:
                    return _struct_unpack(lay, pos[0], 0)
                if meth == "unpack_from" and len(pos) in (1, 2) and (len(pos) == 1 or isinstance(pos[1], int)):
                    return _struct_unpack(lay, pos[0], pos[1] if len(pos) == 2 else 0, exact=False)
                if meth == "pack" and len(pos) == len(lay[1]):
                    return _struct_pack(lay, pos)
        if meth == "digest" and isinstance(recv, T) and recv.op == "hashobj":
            return tm.hashf(recv.args[0], recv.args[1])
        if meth == "digest" and isinstance(recv, T) and recv.op == "hmacobj":
            return tm.hmacf(recv.args[0], recv.args[1], recv.args[2])
        if meth == "bit_length" and not pos:
            if isinstance(recv, int):
                return recv.bit_length()
            return T("bitlen", (recv,), tm.INT)
        if meth == "join":
            return tm.join(recv, pos[0])
        if meth in ("encode", "decode"):
            enc = pos[0] if pos else kw.get("encoding", "utf-8")
            if tm.is_conc(recv) and isinstance(enc, str):
                try:
                    return getattr(recv, meth)(enc)
                except (UnicodeError, LookupError, AttributeError):
                    pass
            enc = str(enc).lower().replace("-", "") if isinstance(enc, str) else enc
            if meth == "encode":
                return tm.encode(recv, enc)
            return T(meth, (recv, enc), tm.STR)
        if meth in ("startswith", "endswith") and len(pos) == 1:
            if tm.is_conc(recv) and tm.is_conc(pos[0]):
                return getattr(recv, meth)(pos[0])
            if isinstance(recv, T) and recv.op == "hex" and isinstance(pos[0], str) and any(c not in "0123456789abcdef" for c in pos[0]):
                return False
            # a concatenation whose first (last) part is known decides the test against candidates no longer than that part
            if isinstance(recv, T) and recv.op == "cat" and recv.args:
                edge = recv.args[0] if meth == "startswith" else recv.args[-1]
                cands = list(_unfz(pos[0])) if isinstance(pos[0], (list, tuple)) else [pos[0]]
                if isinstance(edge, (bytes, str)) and cands and all(type(c_) is type(edge) for c_ in cands):
                    # a candidate longer than the known part can only match if the known part is its beginning (end)
                    if any(len(c_) <= len(edge) and getattr(edge, meth)(c_) for c_ in cands):
                        return True
                    if not any(len(c_) > len(edge) and getattr(c_, meth)(edge) for c_ in cands):
                        return False
            return T(meth, (recv, pos[0]), tm.BOOL)
        if meth == "format" and isinstance(recv, str):
            # "a{}b".format(x): the same concatenation an f-string gives (plain fields only)
            import string
            parts, auto, ok = [], 0, True
            try:
                for lit, field, spec, conv in string.Formatter().parse(recv):
                    if lit:
                        parts.append(lit)
                    if field is None:
                        continue
                    if conv is not None or "." in field or "[" in field:
                        ok = False
                        break
                    if field == "":
                        v = pos[auto] if auto < len(pos) else None
                        auto += 1
                    elif field.isdigit():
                        v = pos[int(field)] if int(field) < len(pos) else None
                    else:
                        v = kw.get(field)
                    if v is None:
                        ok = False
                        break
                    if spec:
                        parts.append(format(v, spec) if tm.is_conc(v) and not isinstance(v, (bytes, list, dict, tuple)) else T("fmt", (tm._fz(v), spec, -1), tm.STR))
                    elif isinstance(v, str) or tm.tyof(v) == tm.STR:
                        parts.append(v)
                    elif tm.is_conc(v) and not isinstance(v, (bytes, list, dict, tuple)):
                        parts.append(format(v, ""))
                    else:
                        parts.append(T("fmt", (tm._fz(v), None, -1), tm.STR))
            except (ValueError, IndexError, TypeError):
                ok = False
            if ok:
                return tm.scat(parts)
        if meth in ("ljust", "rjust", "center") and pos and isinstance(pos[0], int) and ty == tm.ANY and len(pos) > 1 and isinstance(pos[1], (str, bytes)):
            ty = tm.STR if isinstance(pos[1], str) else tm.BYTES  # the fill character tells which kind of string is padded
        if meth in ("ljust", "rjust", "center") and pos and isinstance(pos[0], int) and ty in (tm.BYTES, tm.STR):
            # padding to a width: with a known length the result is the value and (width - len) fill characters
            fill = pos[1] if len(pos) > 1 else (b" " if ty == tm.BYTES else " ")
            n = tm.blen(recv) if ty == tm.BYTES else (len(recv) if isinstance(recv, str) else None)
            if not isinstance(n, int) and self.bind and isinstance(recv, T):
                n = self.bind.get(tm.length(recv))  # the region under analysis fixes the length
            if isinstance(n, int) and not isinstance(n, bool) and tm.is_conc(fill) and meth != "center":
                padn = max(0, pos[0] - n)
                parts = [recv, fill * padn] if meth == "ljust" else [fill * padn, recv]
                return tm.cat(parts) if ty == tm.BYTES else tm.scat(parts)
        if meth == "translate" and ty in (tm.BYTES, tm.ANY) and 1 <= len(pos) <= 2 and not set(kw) - {"delete"}:
            table = pos[0]
            delete = pos[1] if len(pos) > 1 else kw.get("delete", b"")
            if isinstance(recv, (bytes, bytearray)) and (table is None or isinstance(table, bytes)) and isinstance(delete, bytes):
                return bytes(recv).translate(table, delete)
            n_ = tm.blen(recv) if isinstance(recv, T) else None
            if isinstance(table, bytes) and len(table) == 256 and delete == b"" and isinstance(n_, int) and not isinstance(n_, bool) and n_ <= 512:
                # a byte-for-byte translation of a string of known length: byte i of the result is TABLE[x[i]]
                return tm.cat([tm.i2b(tm.idx(table, tm.idx(recv, i)), 1, "big") for i in range(n_)])
            return T("m:translate", (tm._fz(recv), table, delete), tm.BYTES)
        if meth in ("lower", "upper", "strip", "isupper", "islower", "lstrip", "rstrip", "split", "splitlines", "zfill",
                    "index", "count", "find", "isdigit", "title", "replace", "partition", "rsplit", "rpartition", "ljust", "rjust",
                    "removeprefix", "removesuffix", "isalnum", "isalpha", "isascii", "rfind", "rindex", "casefold", "swapcase"):
            if tm.is_conc(recv) and all(tm.is_conc(p) for p in pos) and not isinstance(recv, (dict,)):
                try:
                    return getattr(recv, meth)(*pos)
                except (ValueError, AttributeError, TypeError):
                    return T("raise", ("ValueError",))
            rty = {"lower": ty, "upper": ty, "strip": ty, "lstrip": ty, "rstrip": ty, "isupper": tm.BOOL,
                   "islower": tm.BOOL, "isdigit": tm.BOOL, "split": tm.LIST, "splitlines": tm.LIST, "zfill": ty,
                   "index": tm.INT, "count": tm.INT, "find": tm.INT, "replace": ty, "rsplit": tm.LIST}.get(meth, tm.ANY)
            if meth == "zfill" and ty == tm.INT:
                return T("raise", ("AttributeError", "int.zfill"))
            if self.bind and meth in ("rsplit", "rpartition", "partition", "count") and pos and not kw:
                # when the obligation fixes the pieces x.split(sep) consists of, the other splitting methods follow from them
                pieces = self.bind.get(T("m:split", (tm._fz(recv), tm._fz(pos[0])), tm.LIST))
                if isinstance(pieces, list) and pieces:
                    sep = pos[0]
                    empty = b"" if tm.tyof(sep) == tm.BYTES else ""
                    if meth == "count" and len(pos) == 1:
                        return len(pieces) - 1
                    if meth == "rpartition" and len(pos) == 1:
                        return (tm.join(sep, pieces[:-1]), sep, pieces[-1]) if len(pieces) > 1 else (empty, empty, pieces[0])
                    if meth == "partition" and len(pos) == 1:
                        return (pieces[0], sep, tm.join(sep, pieces[1:])) if len(pieces) > 1 else (pieces[0], empty, empty)
                    if meth == "rsplit" and len(pos) == 2 and pos[1] == 1:
                        return [tm.join(sep, pieces[:-1]), pieces[-1]] if len(pieces) > 1 else [pieces[0]]
            return T("m:" + meth, (tm._fz(recv),) + tuple(tm._fz(p) for p in pos), rty)
        if meth in ("items", "keys", "values") and isinstance(recv, dict):
            if meth == "items":
                return [(k, v) for k, v in recv.items()]
            if meth == "keys":
                return list(recv.keys())
            return list(recv.values())
        if meth == "get":
            if isinstance(recv, dict) and tm.is_conc(pos[0]) and not isinstance(pos[0], (list, dict)):
                return recv.get(pos[0], pos[1] if len(pos) > 1 else None)
            return T("get", (tm._fz(recv), tm._fz(pos[0]), tm._fz(pos[1]) if len(pos) > 1 else None))
        if meth == "copy" and not pos:
            return clone(recv)
        if meth in ("read", "write", "close", "tell", "seek", "truncate", "sendall", "recv", "send", "recv_into", "readinto"):
            fr.summary.calls.append(("io:" + meth, [recv] + pos, kw, e, tuple(fr.guard), tuple(fr.facts), dict(fr.iters)))
            if self.io_fn is not None:
                r = self.io_fn(meth, recv, pos, kw)  # scripted device: the obligation plays the other end of the stream
                if r is not NotImplemented:
                    return r
            rty = {"tell": tm.INT, "recv": tm.BYTES}.get(meth, tm.ANY)
            return T("io", (meth, tm._fz(recv), tuple(tm._fz(p) for p in pos), len(fr.summary.calls)), rty)
        # method on self or on an object of a class of the package
        if isinstance(recv, T) and recv.op == "param" and recv.args[0] == "self" and fr.fi is not None and fr.fi.cls:
            # looked up from the class of the object (the class under analysis when the running method is inherited), then up its
            # package base classes
            meths, _a = self.class_members(*(self._cur_cls or (fr.fi.module.name, fr.fi.cls)))
            if meth in meths:
                decos = {ast.unparse(d) for d in meths[meth].node.decorator_list}
                if "staticmethod" in decos:
                    return self.call_fn(meths[meth], list(pos), kw, e, fr)
                return self.call_fn(meths[meth], [recv] + pos, kw, e, fr)
        r = tm.app("m:" + meth, [recv] + pos, tuple(sorted(kw.items())))
        self._opaque_log.append(r)
        return r

    # ---- externs (builtins / stdlib), by name
    _EXT_SIGS = {"hashlib.pbkdf2_hmac": ("hash_name", "password", "salt", "iterations", "dklen"), "hashlib.new": ("name", "data"),
                 "hmac.new": ("key", "msg", "digestmod"), "int.from_bytes": ("bytes", "byteorder"), "unicodedata.normalize": ("form", "unistr"),
                 "struct.unpack": ("format", "buffer"), "struct.unpack_from": ("format", "buffer", "offset"), "os.path.join": (), "divmod": ("x", "y"),
                 "pow": ("base", "exp", "mod"), "round": ("number", "ndigits"), "functools.reduce": ("function", "iterable", "initial")}

    _LAZY_CONSUMERS = {"iter", "next", "zip", "itertools.zip_longest", "itertools.islice", "itertools.chain", "isinstance", "type", "id", "callable", "bool"}

    def extern(self, name, pos, kw, e, fr):
        n = name[9:] if name.startswith("builtins.") else name
        if n not in self._LAZY_CONSUMERS and any(isinstance(x_, _Iter) for x_ in pos):
            # a function that takes an iterator object walks it to the end: it gets the elements that are left (and the object is
            # exhausted afterwards)
            pos = [(_concrete_iter(x_) if isinstance(x_, _Iter) else x_) for x_ in pos]
        sig = self._EXT_SIGS.get(n)
        if sig and kw and "**" not in kw:
            # keyword arguments of a library function in their positional places (f(**params), f(a, salt=s, ...))
            pos, kw = list(pos), dict(kw)
            while len(pos) < len(sig) and sig[len(pos)] in kw:
                pos.append(kw.pop(sig[len(pos)]))
            if n == "hmac.new" and "digestmod" in kw and len(pos) == 2:
                pass  # hmac.new(key, msg, digestmod=...) is read by name below
        if n.split(".")[0] in ("str", "bytes", "bytearray", "dict", "list") and n.count(".") == 1 and pos and n not in ("bytes.fromhex", "dict.fromkeys", "bytes.maketrans", "str.maketrans", "bytearray.fromhex"):
            # an unbound method of a builtin type used as a function: str.strip(s) is s.strip()
            return self.method(pos[0], n.split(".")[1], list(pos[1:]), kw, e, fr)
        if len(pos) >= 1 and isinstance(pos[0], T) and pos[0].op == "classref" and n in ("tuple", "list", "iter", "sorted", "reversed", "len", "set", "frozenset", "enumerate", "map", "filter", "zip", "dict", "any", "all", "max", "min", "sum") \
                and self.enum_iter(pos[0]) is not None:
            pos = [list(self.enum_iter(pos[0]))] + list(pos[1:])  # an Enum class used as an iterable: its members
        if len(pos) == 2 and isinstance(pos[1], T) and pos[1].op == "classref" and n in ("map", "filter") and self.enum_iter(pos[1]) is not None:
            pos = [pos[0], list(self.enum_iter(pos[1]))]
        if len(pos) == 1 and not kw and isinstance(pos[0], T) and pos[0].op == "ite" and n in ("bytes", "str", "repr", "format", "len", "bool", "hash") and \
                all(isinstance(a_, (_EnumInt, _EnumStr)) and ("__%s__" % n) in self.class_members(a_.modname, a_.cls)[0] for a_ in pos[0].args[1:]):
            x_, y_ = self.extern(name, [pos[0].args[1]], kw, e, fr), self.extern(name, [pos[0].args[2]], kw, e, fr)
            return x_ if tm.veq(x_, y_) else tm.ite(pos[0].args[0], x_, y_)
        if len(pos) == 1 and not kw and isinstance(pos[0], (_EnumInt, _EnumStr)) and n in ("bytes", "str", "repr", "format", "len", "bool", "hash"):
            # an enum member whose class defines the special method itself (bytes(Prefix.EVEN) -> Prefix.__bytes__)
            m_ = self.class_members(pos[0].modname, pos[0].cls)[0].get("__%s__" % n)
            if m_ is not None:
                return self.call_fn(m_, [pos[0]], {}, e, fr)
            if isinstance(pos[0], _EnumInt) and n in ("str", "repr", "format"):
                raise AnalysisError("str() of an IntEnum member depends on the Python version: not modelled")
        if len(pos) == 1 and not kw and isinstance(pos[0], _Obj) and pos[0].tuple_like and n in ("list", "tuple", "len", "iter", "reversed") and \
                not ({"__iter__", "__len__", "__reversed__"} & set(self.class_members(pos[0].modname, pos[0].cls)[0])):
            vals_ = list(pos[0].fields.values())  # a NamedTuple is the tuple of its fields
            return {"list": lambda: vals_, "tuple": lambda: tuple(vals_), "len": lambda: len(vals_), "iter": lambda: _Iter(vals_), "reversed": lambda: vals_[::-1]}[n]()
        if len(pos) == 1 and not kw and isinstance(pos[0], _Obj) and pos[0].tuple_like and n in ("str", "repr", "bytes", "int", "float", "bool", "hash", "format"):
            # a NamedTuple that defines the special method itself (str(name) -> name.__str__())
            r = self.dunder(pos[0], n, [], e, fr)
            if r is NotImplemented and n == "str":
                r = self.dunder(pos[0], "repr", [], e, fr)
            if r is not NotImplemented:
                return r
        if len(pos) == 1 and not kw and isinstance(pos[0], _Obj) and not pos[0].tuple_like:
            # bytes(x), len(x), int(x), ... on an object of a package class: its special method
            dn = {"bytes": "bytes", "len": "len", "int": "int", "str": "str", "repr": "repr", "hash": "hash", "abs": "abs", "float": "float", "index": "index"}.get(n)
            if dn:
                r = self.dunder(pos[0], dn, [], e, fr)
                if r is NotImplemented and n == "int":
                    r = self.dunder(pos[0], "index", [], e, fr)
                if r is not NotImplemented:
                    return r
            if n == "bool":
                return self.obj_truth(pos[0], e, fr)
            if n in ("tuple", "list", "iter", "sorted", "reversed"):
                items = self.obj_iter(pos[0], e, fr)
                if items is not None:
                    if n == "iter":
                        return _Iter(items)
                    if n == "reversed":
                        return list(reversed(items))
                    if n == "tuple":
                        return tuple(items)
                    if n == "list":
                        return list(items)
                else:
                    it_ = self.dunder(pos[0], "iter", [], e, fr)
                    if isinstance(it_, T) and it_.op == "app" and it_.args[0] == "iter" and len(it_.args[1]) == 1:
                        # __iter__ hands out iter(<some sequence>): list(obj) / tuple(obj) / sorted(obj) is that of the sequence
                        return self.extern(name, [_unfz(it_.args[1][0]) if not isinstance(it_.args[1][0], (T, _Obj)) else it_.args[1][0]], kw, e, fr)
        fr.summary.calls.append((name, pos, kw, e, tuple(fr.guard), tuple(fr.facts), dict(fr.iters)))
        try:
            r = self._extern(n, pos, kw, e, fr)
        except (IndexError, KeyError, TypeError):
            r = NotImplemented
        if r is not NotImplemented:
            return r
        r = tm.app(n, pos, tuple(sorted(kw.items())), _EXT_TY.get(n, tm.ANY))
        self._opaque_log.append(r)
        return r

    def _itertools(self, name, pos, kw, e, fr):
        """itertools functions on sequences of known structure (elements may be symbolic); lists stand for the iterators."""
        def seq_of(v):
            if isinstance(v, (str, dict)):
                return None
            s_ = _concrete_iter(v)
            if s_ is None and isinstance(v, T):
                s_ = self._bound_length_iter(v)
            return s_
        if name == "accumulate" and pos:
            xs = seq_of(pos[0])
            if xs is None:
                return NotImplemented
            f = pos[1] if len(pos) > 1 else kw.get("func")
            out = []
            if kw.get("initial") is not None:
                out.append(kw["initial"])
            for x in xs:
                if not out:
                    out.append(x)
                elif f is None:
                    out.append(self.binop(ast.Add(), out[-1], x, e))
                else:
                    out.append(self.call_value(f, [out[-1], x], {}, e, fr))
            return out
        if name in ("chain", "chain.from_iterable"):
            parts = pos if name == "chain" else (seq_of(pos[0]) if pos else None)
            if parts is None:
                return NotImplemented
            out, symbolic = [], False
            for p_ in parts:
                xs = seq_of(p_)
                if xs is None:
                    if isinstance(p_, T) and (tm.tyof(p_) in (tm.LIST, tm.TUPLE) or p_.op in ("map", "lcat")):
                        out.append(p_)  # a sequence of unknown length: the chain is the list concatenation
                        symbolic = True
                        continue
                    return NotImplemented
                out.append(list(xs))
            if symbolic:
                return tm.lcat(out)
            return [x for part in out for x in part]
        if name == "islice" and len(pos) == 2 and isinstance(pos[0], _Iter) and isinstance(pos[1], int) and not isinstance(pos[1], bool) and pos[1] >= 0:
            it_ = pos[0]  # the next n elements of an iterator OBJECT: it stays where islice left it
            if it_.partial:
                it_.rest()
            taken = it_.items[it_.pos:it_.pos + pos[1]]
            it_.pos += len(taken)
            return taken
        if name == "islice" and 2 <= len(pos) <= 4 and all(x is None or (isinstance(x, int) and not isinstance(x, bool)) for x in pos[1:]):
            xs = seq_of(pos[0])
            if xs is None:
                return NotImplemented
            return xs[slice(*pos[1:])]
        if name == "pairwise" and len(pos) == 1:
            xs = seq_of(pos[0])
            return NotImplemented if xs is None else [(a, b) for a, b in zip(xs, xs[1:])]
        if name == "repeat" and len(pos) == 2 and isinstance(pos[1], int):
            return [pos[0]] * pos[1]
        if name == "zip_longest" and pos and any(isinstance(p_, _Iter) for p_ in pos) and all(isinstance(p_, _Iter) or seq_of(p_) is not None for p_ in pos):
            # iterator objects are consumed in turn, one element per argument per round (the same iterator n times: groups of n,
            # the last one filled up)
            srcs = [p_ if isinstance(p_, _Iter) else _Iter(seq_of(p_)) for p_ in pos]
            fill = kw.get("fillvalue")
            rows = []
            while True:
                row, got = [], False
                for it_ in srcs:
                    if it_.pos < len(it_.items):
                        row.append(it_.items[it_.pos])
                        it_.pos += 1
                        got = True
                    else:
                        row.append(fill)
                if not got:
                    break
                rows.append(tuple(row))
            return rows
        if name == "zip_longest" and pos:
            cols = [seq_of(p_) for p_ in pos]
            if any(c is None for c in cols):
                return NotImplemented
            n_ = max(len(c) for c in cols)
            fill = kw.get("fillvalue")
            return [tuple(c[i] if i < len(c) else fill for c in cols) for i in range(n_)]
        if name in ("takewhile", "dropwhile", "filterfalse") and len(pos) == 2:
            xs = seq_of(pos[1])
            if xs is None:
                return NotImplemented
            verdicts = []
            for x in xs:
                c = self.decide(tm.truth(self.call_value(pos[0], [x], {}, e, fr))) if pos[0] is not None else self.decide(tm.truth(x))
                if c is not True and c is not False:
                    return NotImplemented
                verdicts.append(c)
            if name == "filterfalse":
                return [x for x, c in zip(xs, verdicts) if not c]
            k = next((i for i, c in enumerate(verdicts) if not c), len(xs))
            return xs[:k] if name == "takewhile" else xs[k:]
        if name == "product" and pos and not kw:
            cols = [seq_of(p_) for p_ in pos]
            if any(c is None for c in cols):
                return NotImplemented
            import itertools as _it
            return [tuple(t) for t in _it.product(*cols)]
        if name == "starmap" and len(pos) == 2:
            xs = seq_of(pos[1])
            if xs is None:
                return NotImplemented
            return [self.call_value(pos[0], list(_concrete_iter(x) or [x]), {}, e, fr) for x in xs]
        return NotImplemented

    def _extern(self, n, pos, kw, e, fr):
        a0 = pos[0] if pos else None
        if n == "iter" and len(pos) == 2 and not kw:
            return _CallStream(a0, pos[1])
        if n == "filter" and len(pos) == 2 and isinstance(pos[1], _CallStream) and pos[1].pred is None and (a0 is None or (isinstance(a0, T) and a0.op == "ext" and a0.args[0] == "builtins.bool")):
            return _CallStream(pos[1].fn, pos[1].sentinel, truthy=True)
        if n == "next" and len(pos) == 1 and isinstance(a0, _CallStream):
            v = self.call_value(a0.fn, [], {}, e, fr)
            if a0.truthy:
                fr.facts.append(tm.truth(v))  # falsy results were skipped
            return v
        if n == "iter" and len(pos) == 1:
            if isinstance(a0, (_Iter, _CallStream)):
                return a0
            seq0 = _concrete_iter(a0) if not isinstance(a0, (dict, str, bytes)) else (list(a0) if isinstance(a0, bytes) else None)
            if seq0 is None and isinstance(a0, T):
                seq0 = self._bound_length_iter(a0)  # the bytes of an input of exactly n bytes
            if seq0 is not None:
                return _Iter(seq0)
        if n == "next" and pos and isinstance(a0, _Iter):
            if a0.pos < len(a0.items):
                a0.pos += 1
                return a0.items[a0.pos - 1]
            if len(pos) > 1:
                return pos[1]
            return T("raise", ("StopIteration",))
        if n == "next" and pos:
            seq0 = _concrete_iter(a0) if not isinstance(a0, (str, bytes, dict)) else None
            if seq0 is not None:
                if seq0:
                    return seq0[0]
                if len(pos) > 1:
                    return pos[1]
        if n == "len":
            ar_ = self._annotated_arity(a0)
            if ar_ is not None:
                return ar_
            return tm.length(a0)
        if n in _OPERATOR_FNS and len(pos) == _OPERATOR_FNS[n][1] and not kw:
            return self.binop(_OPERATOR_FNS[n][0](), pos[0], pos[1], e)
        if n in ("struct.unpack", "struct.unpack_from", "struct.pack", "struct.calcsize", "struct.Struct") and pos and isinstance(a0, (str, bytes)):
            fmt = a0.decode() if isinstance(a0, bytes) else a0
            lay = _struct_layout(fmt)
            if lay is not None:
                if n == "struct.Struct" and len(pos) == 1:
                    return T("structobj", (fmt,))
                if n == "struct.calcsize" and len(pos) == 1:
                    return sum(w for _, w, _ in lay[1])
                if n == "struct.unpack" and len(pos) == 2:
                    return _struct_unpack(lay, pos[1], 0)
                if n == "struct.unpack_from" and len(pos) in (2, 3) and (len(pos) == 2 or isinstance(pos[2], int)):
                    return _struct_unpack(lay, pos[1], pos[2] if len(pos) == 3 else 0, exact=False)
                if n == "struct.pack" and len(pos) == 1 + len(lay[1]):
                    return _struct_pack(lay, pos[1:])
        if n.startswith("itertools.") and not isinstance(a0, _CallStream):
            r = self._itertools(n[10:], pos, kw, e, fr)
            if r is not NotImplemented:
                return r
        if n == "functools.partial" and pos:
            return T("partial", (pos[0] if isinstance(pos[0], (T, _Closure)) else tm._fz(pos[0]), tm.freeze(list(pos[1:])), tm.freeze(dict(kw))))
        if n == "operator.itemgetter" and pos and not kw:
            return T("itemgetter", tuple(_fzslice(k) for k in pos))
        if n == "operator.attrgetter" and len(pos) == 1 and isinstance(a0, str) and not kw:
            return T("attrgetter", (a0,))
        if n == "functools.reduce" and 2 <= len(pos) <= 3 and not kw:
            seq0 = _concrete_iter(pos[1]) if not isinstance(pos[1], dict) else None
            if seq0 is not None and len(seq0) <= MAX_UNROLL:
                items = list(seq0)
                if len(pos) == 3:
                    acc = pos[2]
                elif items:
                    acc = items.pop(0)
                else:
                    return T("raise", ("TypeError",))
                for x in items:
                    acc = self.call_value(pos[0], [acc, x], {}, e, fr)
                return acc
            if seq0 is None and len(pos) == 3 and isinstance(pos[1], T):
                # a fold over a sequence of unknown length: the same term a `for x in seq: acc = f(acc, x)` loop gives
                d = fr.loopdepth
                accv = T("acc", ("reduce", d), tm.tyof(pos[2]))
                fr.loopdepth = d + 1
                try:
                    body = self.call_value(pos[0], [accv, tm.bv(d, tm.INT if tm.tyof(pos[1]) == tm.BYTES else tm.ANY)], {}, e, fr)
                finally:
                    fr.loopdepth = d
                fr.iters[d] = pos[1]
                return T("fold", ("reduce", tm._fz(body), tm._fz(pos[2]), tm._fz(pos[1]), d), tm.tyof(pos[2]))
        if n == "int.from_bytes":
            en = pos[1] if len(pos) > 1 else kw.get("byteorder", "big")
            if kw.get("signed", False) is not False:
                return T("b2i_signed", (a0, en, kw.get("signed")), tm.INT)
            return tm.b2i(a0, en)
        if n == "int.to_bytes":
            w = pos[1] if len(pos) > 1 else kw.get("length", 1)
            en = pos[2] if len(pos) > 2 else kw.get("byteorder", "big")
            return tm.i2b(a0, w, en)
        if n == "bytes.fromhex":
            return tm.unhex(a0)
        if n == "int":
            if not pos:
                return 0
            if len(pos) == 1:
                if isinstance(a0, bool):
                    return int(a0)
                if isinstance(a0, int):
                    return a0
                if isinstance(a0, float):
                    return int(a0)
                if isinstance(a0, str):
                    try:
                        return int(a0)
                    except ValueError:
                        return T("raise", ("ValueError",), tm.INT)
                if tm.tyof(a0) == tm.INT:
                    return a0
                return T("toint", (a0,), tm.INT)
            if tm.is_conc(a0) and tm.is_conc(pos[1]):
                try:
                    return int(a0, pos[1])
                except ValueError:
                    return T("raise", ("ValueError",), tm.INT)
            return T("toint", (a0, pos[1]), tm.INT)
        if n == "float":
            if isinstance(a0, (int, float)):
                return float(a0)
            return T("tofloat", (a0,), tm.FLOAT)
        if n == "round":
            return T("round", tuple(pos), tm.INT if len(pos) == 1 else tm.FLOAT)
        if n == "bool":
            return tm.truth(a0)
        if n == "str":
            if tm.is_conc(a0) and not isinstance(a0, (list, dict, tuple, bytes)):
                return str(a0)
            if tm.tyof(a0) == tm.STR:
                return a0
            return T("fmt", (tm._fz(a0), None, -1), tm.STR)  # str(x) and f"{x}" are one term
        if n == "bytearray":  # modelled as a bytes value that is re-bound on mutation
            if not pos:
                return b""
            if isinstance(a0, (bytes, bytearray)):
                return bytes(a0)
            if isinstance(a0, int) and not isinstance(a0, bool):
                return bytes(a0)
            if tm.tyof(a0) == tm.BYTES:
                return a0
        if n == "bytes":
            seq0 = _concrete_iter(a0) if not isinstance(a0, (bytes, str, dict, range)) else (list(a0) if isinstance(a0, range) else None)
            if seq0 is not None and all(isinstance(x, int) and not isinstance(x, bool) for x in seq0):
                try:
                    return bytes(seq0)
                except ValueError:
                    pass
            if seq0 is not None and seq0 and all(isinstance(x, int) or tm.tyof(x) == tm.INT or
                                                 (isinstance(x, T) and x.op == "ite" and all(isinstance(a_, int) and not isinstance(a_, bool) for a_ in x.args[1:])) for x in seq0):
                return tm.cat([tm.i2b(x, 1, "big") if isinstance(x, T) else bytes([x]) for x in seq0])  # bytes([x]) is the one-byte encoding of x
            if isinstance(a0, int):
                return bytes(a0)
            if isinstance(a0, bytes) or tm.tyof(a0) == tm.BYTES:
                return a0
            x = tm.bytewise(a0)
            if x is not None:
                return x
            return T("tobytes", (tm._fz(a0),), tm.BYTES)
        if n == "range":
            if all(isinstance(p, int) for p in pos):
                return range(*pos)
            lo, hi, step = 0, None, 1
            if len(pos) == 1:
                hi = pos[0]
            elif len(pos) == 2:
                lo, hi = pos
            else:
                lo, hi, step = pos
            return T("range", (lo, hi, step), tm.LIST)
        if n == "reversed":
            seq = _concrete_iter(a0)
            if seq is not None:
                return list(reversed(seq))
            if isinstance(a0, T) and a0.op == "rev":
                return a0.args[0]
            return T("rev", (tm._fz(a0),), tm.tyof(a0))
        if n == "enumerate":
            seq = _concrete_iter(a0)
            if seq is not None:
                return [(i, x) for i, x in enumerate(seq)]
            return T("enumerate", (tm._fz(a0),), tm.LIST)
        if n in ("list", "tuple"):
            if not pos:
                return [] if n == "list" else ()
            seq = _concrete_iter(a0)
            if seq is not None:
                return list(seq) if n == "list" else tuple(seq)
            if tm.tyof(a0) == tm.LIST:
                return a0
            if isinstance(a0, T) and tm.tyof(a0) == tm.BYTES and a0.op in ("cat", "i2b"):
                n_ = tm.blen(a0)
                if isinstance(n_, int) and not isinstance(n_, bool) and n_ <= 512:
                    items_ = [tm.idx(a0, i_) for i_ in range(n_)]  # the bytes of a byte string of known structure
                    return items_ if n == "list" else tuple(items_)
            return T("tolist", (tm._fz(a0),), tm.LIST)
        if n == "sorted":
            if tm.is_conc(a0) and not kw:
                return sorted(a0)
            return T("sorted", (tm._fz(a0),) + tuple(sorted((k, tm._fz(v)) for k, v in kw.items())), tm.LIST)
        if n == "dict":
            if not pos:
                return dict(kw)
            if len(pos) == 1 and not kw:
                seq1 = (list(a0.items()) if isinstance(a0, dict) else _concrete_iter(a0)) if not isinstance(a0, (str, bytes)) else None
                if seq1 is not None and all(isinstance(x, (tuple, list)) and len(x) == 2 and tm.is_conc(x[0]) and not isinstance(x[0], (list, dict)) for x in seq1):
                    return {x[0]: x[1] for x in seq1}
            return NotImplemented
        if n in ("min", "max"):
            if all(isinstance(p, int) for p in pos) and len(pos) > 1:
                return min(pos) if n == "min" else max(pos)
            if len(pos) == 1 and set(kw) <= {"default"}:
                seq0 = _concrete_iter(a0) if not isinstance(a0, dict) else None
                if seq0 is not None and tm.is_conc(seq0) and all(isinstance(x, type(seq0[0])) for x in seq0[1:]):
                    if seq0:
                        return min(seq0) if n == "min" else max(seq0)
                    if "default" in kw:
                        return kw["default"]
            return T(n, tuple(sorted((tm._fz(p) for p in pos), key=tm.sortkey)), tm.INT)
        if n in ("bytes.maketrans", "bytearray.maketrans") and len(pos) == 2 and isinstance(pos[0], (bytes, bytearray)) and isinstance(pos[1], (bytes, bytearray)) and len(pos[0]) == len(pos[1]):
            return bytes.maketrans(bytes(pos[0]), bytes(pos[1]))
        if n in ("io.BytesIO", "BytesIO") and len(pos) <= 1 and not kw:
            return _BytesIO(pos[0] if pos else b"", 0)
        if n == "bytes" and len(pos) == 1 and isinstance(a0, _BytesIO):
            return a0.buf
        if n == "sum" and isinstance(a0, _Iter):
            a0 = a0.rest()
        if n == "sum" and isinstance(a0, (list, tuple)) and any(isinstance(x, _Obj) for x in list(a0) + list(pos[1:2])):
            acc = pos[1] if len(pos) > 1 else kw.get("start", 0)  # sum() is a left fold with +, i.e. __add__ / __radd__
            for x in a0:
                r_ = self.dunder(acc, "add", [x], e, fr)
                if r_ is NotImplemented:
                    r_ = self.dunder(x, "radd", [acc], e, fr)
                acc = r_ if r_ is not NotImplemented else self.binop(ast.Add(), acc, x, e)
            return acc
        if n == "sum" and isinstance(a0, list):
            return tm.add(a0 + list(pos[1:2]))
        if n == "sum" and isinstance(a0, T) and a0.op == "map" and len(pos) == 1:
            return T("sum", (a0,), tm.INT)  # the same term an accumulating `for` loop over these elements gives
        if n == "abs" and isinstance(a0, int):
            return abs(a0)
        if n == "pow":
            if len(pos) == 3:
                if all(isinstance(p, int) for p in pos):
                    return pow(*pos)
                return T("powmod", tuple(pos), tm.INT)
            return tm.binop("pow", pos[0], pos[1])
        if n == "divmod":
            return (tm.binop("floordiv", pos[0], pos[1]), tm.binop("mod", pos[0], pos[1]))
        if n == "ord":
            if isinstance(a0, (str, bytes)) and len(a0) == 1:
                return ord(a0)
            return T("ord", (a0,), tm.INT)
        if n == "chr" and isinstance(a0, int):
            return chr(a0)
        if n in ("bin", "hex", "oct"):
            if isinstance(a0, int):
                return {"bin": bin, "hex": hex, "oct": oct}[n](a0)
            return T(n + "str", (a0,), tm.STR)
        if n == "format":
            if tm.is_conc(a0) and len(pos) > 1 and isinstance(pos[1], str):
                try:
                    return format(a0, pos[1])
                except (ValueError, TypeError):
                    pass
            return T("fmt", (tm._fz(a0), pos[1] if len(pos) > 1 else None, -1), tm.STR)
        if n == "type" and len(pos) == 1 and isinstance(a0, (_Obj, _EnumInt, _EnumStr)):
            return T("classref", (a0.modname + "." + a0.cls,))  # type(obj) of an object of a package class: that class
        if n == "type":
            t = tm.tyof(a0)
            if t != tm.ANY and (not (isinstance(a0, T) and a0.op == "param") or getattr(self, "typed_params", False)):
                return T("ext", ("builtins." + {"none": "NoneType"}.get(t, t),))
            return T("typeof", (a0,))
        if n == "isinstance" and len(pos) == 2:
            want0 = pos[1] if isinstance(pos[1], (tuple, list)) else (pos[1],)
            crefs = [w.args[0] for w in want0 if isinstance(w, T) and w.op == "classref"]
            exts = [w.args[0] for w in want0 if isinstance(w, T) and w.op == "ext"]
            if isinstance(a0, _Obj) and len(crefs) + len(exts) == len(want0):
                mine = {a0.modname + "." + a0.cls}
                work = [(a0.modname, a0.cls)]
                while work:  # package base classes
                    mn_, cn_ = work.pop()
                    node_ = self.prog.modules[mn_].classnodes.get(cn_) if mn_ in self.prog.modules else None
                    for b_ in (node_.bases if node_ is not None else []):
                        r_ = self.prog.resolve_chain(mn_, dotted_parts(b_) or [])
                        if r_ is not None and r_[0] == "class" and (r_[1].name + "." + r_[2]) not in mine:
                            mine.add(r_[1].name + "." + r_[2])
                            work.append((r_[1].name, r_[2]))
                if mine & set(crefs):
                    return True
                if a0.tuple_like and "builtins.tuple" in exts:
                    return True
                return "builtins.object" in exts
            if crefs and len(crefs) == len(want0) and not isinstance(a0, _Obj) and (tm.is_conc(a0) or (isinstance(a0, T) and a0.op not in ("param", "ite", "app", "proj", "idx", "attr", "unk", "lookup", "get") and tm.tyof(a0) != tm.ANY)):
                return False  # a plain value (number, bytes, a term of builtin type) is not an instance of a package class
        if n == "isinstance" and len(pos) == 2 and isinstance(a0, T) and self._annotated_arity(a0) is not None:
            # the result of a package function annotated `-> Tuple[A, B]` (the annotation already types the term)
            want = pos[1] if isinstance(pos[1], (tuple, list)) else (pos[1],)
            names = [w.args[0] for w in want if isinstance(w, T) and w.op == "ext"]
            if len(names) == len(want) and all(nm.startswith("builtins.") for nm in names):
                return bool({"builtins.tuple", "builtins.object"} & set(names))
        if n == "isinstance" and len(pos) == 2 and type(a0) in (list, tuple, dict) and not (isinstance(a0, tuple) and a0 and isinstance(a0[0], str) and a0[0].startswith("#")):
            want = pos[1] if isinstance(pos[1], (tuple, list)) else (pos[1],)
            names = [w.args[0] for w in want if isinstance(w, T) and w.op == "ext"]
            if len(names) == len(want) and all(nm.startswith("builtins.") for nm in names):
                return bool({"builtins." + type(a0).__name__, "builtins.object"} & set(names))
        if n == "isinstance" and len(pos) == 2 and type(a0) in (str, bytes, bytearray, int, bool, float, type(None), _EnumInt, _EnumStr):
            # a value the evaluator holds as itself (a literal, a folded constant): its type is what Python says it is
            want = pos[1] if isinstance(pos[1], (tuple, list)) else (pos[1],)
            names = [w.args[0] for w in want if isinstance(w, T) and w.op == "ext"]
            if len(names) == len(want) and all(nm.startswith("builtins.") for nm in names):
                mro = {"builtins." + c_.__name__ for c_ in type(a0).__mro__ if c_ not in (_EnumInt, _EnumStr)}
                return bool(mro & set(names))
        if n == "isinstance":
            t = tm.tyof(a0)
            if t != tm.ANY and len(pos) == 2 and getattr(self, "typed_params", False):
                # the obligation fixes the argument's type: isinstance against builtin types folds (bool is an int)
                want = pos[1] if isinstance(pos[1], (tuple, list)) else (pos[1],)
                names = [w.args[0] for w in want if isinstance(w, T) and w.op == "ext"]
                if len(names) == len(want) and all(nm.startswith("builtins.") for nm in names):
                    mine = {"builtins." + {"none": "NoneType"}.get(t, t)}
                    if t == tm.BOOL:
                        mine.add("builtins.int")
                    if t == tm.BYTES and isinstance(a0, bytearray):
                        mine = {"builtins.bytearray"}
                    return bool(mine & set(names))
            return T("isinstance", (tm._fz(a0), tm._fz(pos[1])), tm.BOOL)
        if n == "slice" and 1 <= len(pos) <= 3 and all(x is None or (isinstance(x, int) and not isinstance(x, bool)) for x in pos):
            return slice(*pos)
        if n == "vars" and len(pos) == 1 and isinstance(a0, T) and a0.op == "modref" and a0.args[0] in self.prog.modules:
            m = self.prog.modules[a0.args[0]]
            out = {}
            for nm in m.assigns:  # module-level constants, in definition order
                out[nm] = self.const(a0.args[0], nm)
            return out
        if n == "zip" and pos and not kw and any(isinstance(x, _Iter) for x in pos) and all(isinstance(x, _Iter) or (_concrete_iter(x) is not None and not isinstance(x, dict)) for x in pos):
            # zip over iterator objects consumes them in turn, one element per argument per round -- the same iterator given n times
            # (zip(*[it] * n)) yields consecutive groups of n; the round that finds an argument exhausted ends it (what earlier
            # arguments took in that round is lost, as in Python)
            srcs = [x if isinstance(x, _Iter) else _Iter(list(_concrete_iter(x))) for x in pos]
            rows = []
            while True:
                row = []
                for it_ in srcs:
                    if it_.pos >= len(it_.items):
                        row = None
                        break
                    row.append(it_.items[it_.pos])
                    it_.pos += 1
                if row is None:
                    break
                rows.append(tuple(row))
            return rows
        if n == "zip" and pos and not any(isinstance(x, (dict, _Iter)) for x in pos) and all(_concrete_iter(x) is not None for x in pos):
            return [tuple(t) for t in zip(*[_concrete_iter(x) for x in pos])]
        if n == "dict" and len(pos) == 1 and not kw:
            seq0 = _concrete_iter(a0) if not isinstance(a0, (dict, str, bytes)) else (list(a0.items()) if isinstance(a0, dict) else None)
            if seq0 is not None and all(isinstance(x, (tuple, list)) and len(x) == 2 and tm.is_conc(x[0]) and not isinstance(x[0], (list, dict)) for x in seq0):
                return {x[0]: x[1] for x in seq0}
        if n == "vars" and len(pos) == 1 and self.objects and isinstance(a0, T):
            for k, d in self.objects.items():
                if tm.veq(k, a0):
                    return dict(d)
        if n == "object.__new__" and len(pos) == 1 and isinstance(a0, T) and a0.op == "classref" and "." in a0.args[0]:
            return _Obj(a0.args[0].rsplit(".", 1)[0], a0.args[0].rsplit(".", 1)[1], {})
        if n in ("setattr", "object.__setattr__") and len(pos) == 3 and isinstance(pos[1], str) and isinstance(a0, _Obj):
            a0.fields[pos[1]] = pos[2]  # also how a frozen dataclass sets its own fields in __post_init__
            return None
        if n == "next" and pos and isinstance(a0, _Obj) and not a0.tuple_like:
            meths_, _a_ = self.class_members(a0.modname, a0.cls)
            nx_ = meths_.get("__next__")
            if nx_ is not None:
                sub_ = self.run(nx_, {nx_.params()[0]: a0}, depth=fr.depth + 1)
                k_, v_ = None, None
                for ex_ in sub_.exits:
                    g_ = tm.land(list(ex_.guard))
                    if g_ is False:
                        continue
                    k_, v_ = (ex_.kind, ex_) if g_ is True else ("undecided", ex_)
                    break
                if k_ == "return":
                    fr.summary.calls.extend((c[0], c[1], c[2], c[3], tuple(fr.guard) + tuple(c[4]), tuple(fr.facts) + tuple(c[5] if len(c) > 5 else ()),
                                             _merge_iters(fr.iters, c[6] if len(c) > 6 else {})) for c in sub_.calls)
                    return v_.value
                if k_ == "raise" and (v_.exc or "").split(".")[-1] == "StopIteration":
                    if len(pos) > 1:
                        return pos[1]
                    return T("raise", ("StopIteration",))
        if n == "setattr" and len(pos) == 3 and isinstance(pos[1], str) and isinstance(a0, T) and a0.op == "param":
            fr.env[a0.args[0] + "." + pos[1]] = pos[2]  # setattr(self, "name", v) is self.name = v
            return None
        if n == "getattr":
            if isinstance(pos[1], str):
                v = self.getattr_value(a0, pos[1])
                if isinstance(v, T) and v.op == "raise" and len(pos) > 2:
                    return pos[2]
                if e is not None and isinstance(a0, T) and a0.op == "modref" and tm.is_conc(v) and not isinstance(v, (T, _Obj)):
                    self.__dict__.setdefault("_inert_calls", set()).add(id(e))  # a module constant looked up by a known name: raised nothing
                return v
            return T("getattr", tuple(tm._fz(p) for p in pos))
        if n == "dir" and isinstance(a0, T) and a0.op == "modref" and a0.args[0] in self.prog.modules:
            m = self.prog.modules[a0.args[0]]
            names = set(m.assigns) | set(m.functions) | set(m.classes) | set(m.imports)
            return sorted(names)
        if n == "all":
            seq = _concrete_iter(a0)
            if seq is not None:
                return tm.land([tm.truth(x) for x in seq])
            return T("all", (tm._fz(a0),), tm.BOOL)
        if n == "any":
            seq = _concrete_iter(a0)
            if seq is not None:
                return tm.lor([tm.truth(x) for x in seq])
            return T("any", (tm._fz(a0),), tm.BOOL)
        if n == "map" and len(pos) == 2 and (isinstance(pos[0], _Closure) or (isinstance(pos[0], T) and pos[0].op in ("itemgetter", "attrgetter", "partial", "fn", "ext", "boundmethod", "attr", "classref", "fnraw"))):
            seq = _concrete_iter(pos[1]) if not isinstance(pos[1], (str, dict)) else None
            if seq is None and isinstance(pos[1], T):
                seq = self._bound_length_iter(pos[1])
            if seq is not None and len(seq) <= MAX_UNROLL:
                return [self.call_value(pos[0], [x], {}, e, fr) for x in seq]
            if seq is None:
                # one call per element of a sequence of unknown structure: the same term a comprehension [f(x) for x in seq] gives
                d = fr.loopdepth
                fr.loopdepth = d + 1
                try:
                    body = self.call_value(pos[0], [tm.bv(d, tm.INT if tm.tyof(pos[1]) == tm.BYTES else tm.ANY)], {}, e, fr)
                finally:
                    fr.loopdepth = d
                return tm.mapt(tm._fz(body), pos[1], None, tm.LIST)
        if n in ("map", "filter") and len(pos) == 2 and isinstance(pos[0], T) and pos[0].op == "lambda":
            seq = _concrete_iter(pos[1])
            if seq is not None and n == "map":
                out = [self.apply_lambda(pos[0], [x], fr) for x in seq]
                if all(o is not None for o in out):
                    return out
            if seq is not None and n == "filter":
                keep = []
                for x in seq:
                    c = self.apply_lambda(pos[0], [x], fr)
                    c = tm.truth(c) if c is not None else None
                    if c is True:
                        keep.append(x)
                    elif c is not False:
                        keep = None
                        break
                if keep is not None:
                    return keep
            d = fr.loopdepth
            fr.loopdepth = d + 1
            try:
                body = self.apply_lambda(pos[0], [tm.bv(d)], fr)
            finally:
                fr.loopdepth = d
            if body is not None:
                if n == "map":
                    return tm.mapt(tm._fz(body), pos[1])
                return tm.mapt(tm.bv(d), pos[1], tm.truth(body))
        if n in ("map", "filter"):
            return T("b" + n, tuple(tm._fz(p) for p in pos), tm.LIST)
        if n in ("hashlib.sha256", "hashlib.sha512", "hashlib.sha1"):
            return T("hashobj", (n.split(".")[1], a0 if pos else b""))
        if n == "hashlib.new":
            return T("hashobj", (a0, pos[1] if len(pos) > 1 else b""))
        if n == "hmac.new":
            dm = kw.get("digestmod", pos[2] if len(pos) > 2 else None)
            algo = dm.args[0].split(".")[-1] if isinstance(dm, T) and dm.op == "ext" else dm
            return T("hmacobj", (algo, a0, pos[1] if len(pos) > 1 else kw.get("msg", b"")))
        if n == "hashlib.pbkdf2_hmac":
            dklen = pos[4] if len(pos) > 4 else kw.get("dklen")
            algo = a0
            if dklen is None:
                dklen = tm.HASHLEN.get(algo)
            return T("pbkdf2", (algo, pos[1], pos[2], pos[3], dklen), tm.BYTES)
        if n == "unicodedata.normalize":
            return tm.normalize(a0, pos[1])
        if n in ("copy.copy", "copy.deepcopy"):
            return clone(a0)
        if n == "secrets.randbelow":
            return T("csprng", ("randbelow", a0, _site(e)), tm.INT)
        if n == "secrets.token_bytes":
            return T("csprng", ("token_bytes", a0, _site(e)), tm.BYTES)
        if n == "os.urandom":
            return T("csprng", ("urandom", a0, _site(e)), tm.BYTES)
        if n in ("random.randrange", "random.randint", "random.getrandbits", "random.random", "random.randbytes"):
            return T("prng", (n, tuple(pos), _site(e)), tm.INT)
        if n == "time.time":
            return T("clock", (), tm.FLOAT)
        if n == "math.ceil":
            return T("ceil", (a0,), tm.INT)
        if n == "os.path.join":
            return T("pathjoin", tuple(pos), tm.STR)
        if n in ("os.path.split", "os.path.basename", "os.path.dirname") and isinstance(a0, T) and a0.op == "pathjoin" and len(a0.args) == 2 \
                and isinstance(a0.args[1], str) and a0.args[1] and "/" not in a0.args[1] and os.sep not in a0.args[1]:
            # the last component of join(dir, "name") is "name"
            return {"os.path.split": (a0.args[0], a0.args[1]), "os.path.basename": a0.args[1], "os.path.dirname": a0.args[0]}[n]
        return NotImplemented


def _merge_iters(a, b):
    d = dict(a)
    d.update(b)
    return d


def _site(e):
    return "%s:%s" % (getattr(e, "lineno", 0), getattr(e, "col_offset", 0))


_EXT_TY = {"os.path.exists": tm.BOOL, "os.listdir": tm.LIST}


def _exc_matches(exc, names):
    base = exc.split(".")[-1] if exc else "Exception"
    for n in names:
        n = n.split(".")[-1]
        if n in ("Exception", "BaseException"):
            return True
        if n == base:
            return True
        if n == "ArithmeticError" and base in ("ZeroDivisionError", "OverflowError"):
            return True
        if n == "LookupError" and base in ("KeyError", "IndexError"):
            return True
        if n == "ValueError" and base in ("UnicodeDecodeError", "UnicodeEncodeError", "JSONDecodeError"):
            return True
    return False


def _try_key(st):
    return ast.dump(st.body[0])[:80] if st.body else ""


def _as_load(t):
    import copy
    n = copy.deepcopy(t)
    for x in ast.walk(n):
        if hasattr(x, "ctx"):
            x.ctx = ast.Load()
    return n


def _root_name(t):
    while isinstance(t, (ast.Subscript, ast.Attribute)):
        t = t.value
    return t.id if isinstance(t, ast.Name) else None


def _unfz(v):
    if isinstance(v, tuple) and v and v[0] == "#list":
        return [_unfz(x) for x in v[1:]]
    if isinstance(v, tuple) and v and v[0] == "#tuple":
        return tuple(_unfz(x) for x in v[1:])
    if isinstance(v, tuple) and v and v[0] == "#dict":
        return {k: _unfz(x) for k, x in v[1:]}
    if isinstance(v, tuple) and v and v[0] == "#bool":
        return v[1]
    return v


def _concrete_iter(it):
    """A Python sequence if the iterable's *structure* is known (elements may be symbolic)."""
    if isinstance(it, (list, tuple)) and not (isinstance(it, tuple) and it and it[0] in ("#list", "#tuple", "#dict")):
        return list(it)
    if isinstance(it, tuple) and it and it[0] in ("#list", "#tuple"):
        return [_unfz(x) for x in it[1:]]
    if isinstance(it, _Iter):
        rest = it.rest()
        it.pos = len(it.items)  # whoever iterates an iterator object to the end exhausts it
        return rest
    if isinstance(it, range):
        return list(it) if len(it) <= MAX_UNROLL * 8 else None
    if isinstance(it, (bytes, str)):
        return list(it)
    if isinstance(it, dict):
        return list(it.keys())
    return None
