"""Check harness: obligations, reporting, known findings, evidence, replay."""
import ast
import json
import os
import sys
import time
import traceback

from .model import Program, AnalysisError, norm_text
from .evalr import Evaluator, Policy
from . import prims

VERIF = os.path.dirname(os.path.dirname(os.path.abspath(__file__)))
EVIDENCE_DIR = os.path.join(VERIF, "evidence")
KNOWN_FILE = os.path.join(VERIF, "known_findings.json")


class Ob:
    """One evaluated obligation instance."""

    def __init__(self, oid, rule, fi_or_site, construct, ok, message, expected=None, found=None, example=None,
                 nontrivial=True, line=None):
        self.oid = oid
        self.rule = rule
        if hasattr(fi_or_site, "qualname"):
            self.file = fi_or_site.relpath
            self.function = fi_or_site.qualname
            self.line = line if line is not None else fi_or_site.lineno
        else:
            self.file, self.function = fi_or_site
            self.line = line or 0
        if isinstance(construct, ast.AST):
            self.line = line if line is not None else getattr(construct, "lineno", self.line)
            construct = norm_text(construct)
        self.construct = construct
        self.ok = ok
        self.message = message
        self.expected = expected
        self.found = found
        self.example = example
        self.nontrivial = nontrivial
        self.known = None

    def key(self):
        return (self.oid, self.function, " ".join(str(self.construct).split()))

    def as_sample(self):
        d = {"obligation": self.oid, "rule": self.rule, "site": "%s:%s %s" % (self.file, self.line, self.function),
             "construct": _short(self.construct), "verdict": "pass" if self.ok else ("known-finding" if self.known else "FAIL")}
        if not self.ok:
            d["message"] = self.message
        return d


def _short(s, n=160):
    s = str(s)
    return s if len(s) <= n else s[:n] + "…"


class Report:
    def __init__(self, pid, tier, repo):
        self.pid = pid
        self.tier = tier
        self.repo = repo
        self.obs = []
        self.errors = []
        self.stats = {}
        self.advisories = []
        self.assumptions = []
        self.sensitivity = []
        self.canaries = []

    def check(self, oid, rule, site, construct, ok, message, **kw):
        ob = Ob(oid, rule, site, construct, bool(ok), message, **kw)
        self.obs.append(ob)
        return ob.ok

    def error(self, rule, reason):
        self.errors.append((rule, reason))

    def floor(self, rule, count, minimum, what):
        """A rule family that matches fewer sites than confirmed by hand cannot pass vacuously."""
        self.stats[what] = count
        if count < minimum:
            self.error(rule, "%s: matched %d sites, floor %d" % (what, count, minimum))

    def stat(self, k, v):
        self.stats[k] = v

    def assume(self, text):
        if text not in self.assumptions:
            self.assumptions.append(text)

    def canary(self, rule, fired, what):
        """Liveness of a zero-expected rule on a positive fixture."""
        self.canaries.append({"rule": rule, "fired": bool(fired), "fixture": what})
        if not fired:
            self.error(rule, "canary fixture did not fire: %s" % what)


def load_known():
    if not os.path.exists(KNOWN_FILE):
        return []
    with open(KNOWN_FILE) as f:
        return json.load(f).get("findings", [])


class Ctx:
    """What a property module gets."""

    def __init__(self, prog, report, tier):
        self.prog = prog
        self.R = report
        self.tier = tier
        self.thorough = tier == "thorough"
        self._evs = {}

    def evaluator(self, opaque=(), max_depth=6, field_prims=True, opaque_pred=None, extra_prims=None):
        pr = dict(prims.field_prims()) if field_prims else {}
        if extra_prims:
            pr.update(extra_prims)
        pol = Policy(opaque=opaque, prims=pr, max_depth=max_depth, opaque_pred=opaque_pred)
        pol.resolve_aliases(self.prog)
        return Evaluator(self.prog, pol)

    def fn(self, qualname):
        return self.prog.function(qualname)


def run_property(pid, module, tier="quick", repo="/repo", replay=None, write_evidence=True):
    t0 = time.time()
    seed = int(os.environ.get("VERIF_SEED", "0") or 0)
    R = Report(pid, tier, repo)
    rc = 0
    try:
        # an evaluation that blows up (a term growing without bound on code the engine does not fold) must end as an analysis
        # error of this run (exit 2), not take the machine down: the address space of the analysing process is capped
        import resource
        cap = int(os.environ.get("VERIF_MEM_GB", "6")) << 30
        soft, hard = resource.getrlimit(resource.RLIMIT_AS)
        if soft == resource.RLIM_INFINITY or soft > cap:
            resource.setrlimit(resource.RLIMIT_AS, (cap, hard))
    except Exception:
        pass
    class _Budget(Exception):
        pass

    def _alarm(_sig, _frm):
        raise _Budget()
    budget = int(os.environ.get("VERIF_TIME_S", "1800" if tier == "thorough" else "300"))
    old_handler = None
    try:
        import signal
        old_handler = signal.signal(signal.SIGALRM, _alarm)
        signal.alarm(budget)
    except Exception:
        old_handler = None
    try:
        prog = Program(repo)
        ctx = Ctx(prog, R, tier)
        module.run(ctx)
        R.stat("files_parsed", len(prog.files))
    except _Budget:
        # an evaluation that does not end (or explodes in time) on this tree is an analysis error, never a pass and never a hang
        R.error("engine", "time limit: the evaluation of this tree does not finish within the analysis time budget (%d s)" % budget)
    except AnalysisError as e:
        R.error("anchor", str(e))
    except RecursionError as e:
        R.error("engine", "recursion limit: %s" % e)
    except MemoryError:
        R.error("engine", "memory limit: the evaluation of this tree does not stay within the analysis memory cap")
    except Exception as e:  # a checker bug must never look like a violation
        tb = traceback.format_exc()
        R.error("engine", "%s: %s | %s" % (type(e).__name__, e, tb.strip().splitlines()[-3:]))

    try:
        import signal
        signal.alarm(0)
        if old_handler is not None:
            signal.signal(signal.SIGALRM, old_handler)
    except Exception:
        pass
    known = [k for k in load_known() if k.get("property") == pid]
    fails = [o for o in R.obs if not o.ok]
    for o in fails:
        for k in known:
            if k.get("status") != "known":
                continue
            if k.get("obligation") == o.oid and k.get("function") == o.function and \
                    " ".join(k.get("construct", "").split()) == " ".join(str(o.construct).split()):
                o.known = k
                break
    violations = [o for o in fails if not o.known]
    if replay:
        want = json.load(open(replay))
        wkey = (want.get("obligation"), want["site"].get("function"), " ".join(want["site"].get("construct", "").split()))
        still = [o for o in R.obs if o.key() == wkey]
        if not still:
            print("REPLAY property=%s obligation=%s: site no longer present" % (pid, wkey[0]))
        for o in still:
            print("REPLAY property=%s obligation=%s %s: %s" % (pid, o.oid, o.function, "holds now" if o.ok else "STILL FAILS: " + o.message))
        violations = [o for o in still if not o.ok and not o.known]

    printed = set()
    for o in fails:
        if o.known and o.key() not in printed:
            printed.add(o.key())
            print("KNOWN-FINDING: property=%s %s %s %s — %s" % (pid, o.oid, o.function, _short(o.construct, 80), o.known.get("what", o.message)))
    os.makedirs(os.path.join(EVIDENCE_DIR, "replay"), exist_ok=True)
    for i, o in enumerate(violations):
        path = os.path.join(EVIDENCE_DIR, "replay", "%s-%d.json" % (pid, i))
        with open(path, "w") as f:
            json.dump({"property": pid, "obligation": o.oid, "rule": o.rule,
                       "site": {"file": o.file, "line": o.line, "function": o.function, "construct": str(o.construct)},
                       "expected": _short(o.expected, 2000) if o.expected is not None else None,
                       "found": _short(o.found, 2000) if o.found is not None else None,
                       "explanation": o.message, "failing_example": o.example}, f, indent=1)
        print("%s:%s %s [%s %s] — %s" % (o.file, o.line, o.function, o.oid, o.rule, o.message))
        if o.example:
            print("    failing input class: %s" % o.example)
        print("VIOLATION property=%s replay=%s" % (pid, path))
    for rule, reason in R.errors:
        print("ANALYSIS-ERROR property=%s rule=%s reason=%s" % (pid, rule, reason))
    for a in R.advisories:
        print("ADVISORY property=%s %s" % (pid, a))
    if violations:
        rc = 1
    elif R.errors:
        rc = 2
    if tier == "thorough" and rc == 0 and not replay and os.environ.get("VERIF_NO_SENSITIVITY") != "1":
        # Sensitivity pass: every declared variant of the analysed source (string edits, reverted fix commits, the
        # confirmed seeded changes) is materialised in a scratch copy and analysed; the obligations must fire on the
        # breaking ones and stay silent on the behaviour-preserving ones. Reported, never turned into a verdict on /repo.
        from . import selftest
        try:
            res = selftest.run_all(pid, module, repo=repo)
        except Exception as e:
            res = []
            R.advisories.append("sensitivity pass failed to run: %s: %s" % (type(e).__name__, e))
        R.sensitivity = res
        R.stat("variants_run", sum(1 for r in res if r["status"] != "skipped"))
        R.stat("variants_as_expected", sum(1 for r in res if r["ok"] and r["status"] != "skipped"))
        for r in res:
            if not r["ok"]:
                R.advisories.append("SENSITIVITY-MISMATCH variant=%r expected=%s got=%s" % (r["variant"], r["expect"], r["status"]))
        for a in R.advisories:
            if a.startswith("SENSITIVITY") or a.startswith("sensitivity"):
                print("ADVISORY property=%s %s" % (pid, a))
        print("%s sensitivity: %d variants analysed, %d as expected, %d skipped" % (
            pid, sum(1 for r in res if r["status"] != "skipped"), sum(1 for r in res if r["ok"] and r["status"] != "skipped"),
            sum(1 for r in res if r["status"] == "skipped")))
    wall = time.time() - t0
    if write_evidence and not replay:
        write_evidence_file(pid, R, tier, seed, wall, violations, module)
    n_ok = sum(1 for o in R.obs if o.ok)
    print("%s %s: %d obligations evaluated, %d hold, %d known findings, %d violations, %d analysis errors (%.2fs)" % (
        pid, tier, len(R.obs), n_ok, sum(1 for o in fails if o.known), len(violations), len(R.errors), wall))
    return rc


def write_evidence_file(pid, R, tier, seed, wall, violations, module):
    obs = R.obs
    distinct = {o.key() for o in obs if o.nontrivial}
    by_rule = {}
    for o in obs:
        by_rule.setdefault(o.rule, 0)
        by_rule[o.rule] += 1
    samples = [o.as_sample() for o in obs[:400]]
    fails = [o.as_sample() for o in obs if not o.ok]
    ev = {
        "property_id": pid,
        "tier": tier,
        "seed": seed,
        "level": "other",
        "coverage": {
            "explanation": (getattr(module, "EXPLANATION", "") or "static obligations").strip(),
            "evaluations": len(obs),
            "distinct_nontrivial": len(distinct),
            "rule": "one evaluation = one obligation instance (rule x site) computed from /repo's current source; "
                    "distinct = distinct (obligation, function, construct) keys; non-trivial = the instance involved a "
                    "non-constant construct of the analysed code (pure constant-table comparisons are counted trivial "
                    "only when marked so by the rule)",
            "obligations": len(obs),
            "discharged": sum(1 for o in obs if o.ok),
            "samples": samples,
            "failed": fails,
            "by_rule": by_rule,
            "measured": R.stats,
            "canaries": R.canaries,
            "advisories": R.advisories[:100],
            "sensitivity": R.sensitivity,
            "analysis_errors": [{"rule": r, "reason": s} for r, s in R.errors],
            "not_decided": getattr(module, "NOT_DECIDED", ""),
            "exhaustive": False,
        },
        "assumptions": R.assumptions + list(getattr(module, "ASSUMPTIONS", [])),
        "wall_s": round(wall, 3),
        "violations": len(violations),
    }
    os.makedirs(EVIDENCE_DIR, exist_ok=True)
    with open(os.path.join(EVIDENCE_DIR, "%s.json" % pid), "w") as f:
        json.dump(ev, f, indent=1, default=str)


def main(argv=None):
    import argparse
    import importlib
    ap = argparse.ArgumentParser(prog="check")
    ap.add_argument("pid")
    ap.add_argument("--tier", default=os.environ.get("VERIF_TIER") or "quick", choices=["quick", "thorough"])
    ap.add_argument("--repo", default="/repo")
    ap.add_argument("--replay")
    ap.add_argument("--no-evidence", action="store_true")
    a = ap.parse_args(argv)
    pid = a.pid.upper()
    sys.setrecursionlimit(20000)
    try:
        mod = importlib.import_module("sa.props.%s" % pid.lower())
    except ImportError as e:
        print("ANALYSIS-ERROR property=%s rule=harness reason=no check module: %s" % (pid, e))
        return 2
    return run_property(pid, mod, tier=a.tier, repo=a.repo, replay=a.replay, write_evidence=not a.no_evidence)
