"""E3 (part 1) -- the term language used for algebraic value numbering.

A value is either a concrete Python object (int, bytes, str, bool, None, float, tuple, list, dict --
containers may hold symbolic leaves) or a symbolic term T(op, *args).  `mk` builds terms in normal
form, so semantic equality of two computations is syntactic equality of their terms.
"""

INT, BYTES, STR, BOOL, LIST, TUPLE, DICT, NONE, FLOAT, ANY = (
    "int", "bytes", "str", "bool", "list", "tuple", "dict", "none", "float", "any")


class T:
    __slots__ = ("op", "args", "ty", "_h", "_s")

    def __init__(self, op, args, ty=ANY):
        self.op = op
        self.args = tuple(_fzdeep(a) for a in args)
        self.ty = ty
        self._h = hash((op, self.args))
        self._s = None

    def __hash__(self):
        return self._h

    def __eq__(self, other):
        if self is other:
            return True
        return isinstance(other, T) and self._h == other._h and self.op == other.op and _eq_args(self.args, other.args)

    def __ne__(self, other):
        return not self.__eq__(other)

    def __repr__(self):
        return show(self)


def _fzdeep(v):
    if isinstance(v, (list, dict)):
        return freeze(v)
    if isinstance(v, tuple) and any(isinstance(x, (list, dict, tuple)) for x in v):
        return tuple(_fzdeep(x) for x in v)
    if isinstance(v, range):
        return ("#range", v.start, v.stop, v.step)
    return v


def _eq_args(a, b):
    if a is b:
        return True
    if len(a) != len(b):
        return False
    for x, y in zip(a, b):
        if not veq(x, y):
            return False
    return True


def veq(x, y):
    """Equality of values that distinguishes True from 1 and b'' from ''."""
    if x is y:
        return True
    if isinstance(x, T) or isinstance(y, T):
        return isinstance(x, T) and isinstance(y, T) and x == y
    if type(x) is not type(y):
        return False
    if isinstance(x, (list, tuple)):
        return len(x) == len(y) and all(veq(a, b) for a, b in zip(x, y))
    if isinstance(x, dict):
        return x.keys() == y.keys() and all(veq(x[k], y[k]) for k in x)
    return x == y


def freeze(v):
    """Hashable form of a value (lists/dicts -> tagged tuples)."""
    if isinstance(v, list):
        return ("#list",) + tuple(freeze(x) for x in v)
    if isinstance(v, tuple):
        return ("#tuple",) + tuple(freeze(x) for x in v)
    if isinstance(v, dict):
        return ("#dict",) + tuple((freeze(k), freeze(x)) for k, x in v.items())
    if isinstance(v, bool):
        return ("#bool", v)
    return v


def is_conc(v):
    if isinstance(v, T):
        return False
    if isinstance(v, (list, tuple)):
        return all(is_conc(x) for x in v)
    if isinstance(v, dict):
        return all(is_conc(x) for x in v.values()) and all(is_conc(k) for k in v.keys())
    return True


def tyof(v):
    if isinstance(v, T):
        return v.ty
    if isinstance(v, bool):
        return BOOL
    if isinstance(v, int):
        return INT
    if isinstance(v, (bytes, bytearray)):
        return BYTES
    if isinstance(v, str):
        return STR
    if isinstance(v, float):
        return FLOAT
    if isinstance(v, list):
        return LIST
    if isinstance(v, tuple):
        return TUPLE
    if isinstance(v, dict):
        return DICT
    if v is None:
        return NONE
    return ANY


def sortkey(v):
    return (0 if not isinstance(v, T) else 1, _sk(v))


def _sk(v):
    """show(v) without the depth cut-off, cached on every term node (canonical argument order is computed very often)."""
    if isinstance(v, T):
        s = v._s
        if s is None:
            s = _fmt(v, _sk)
            if len(s) > 400:
                # the key only has to be a deterministic total order that equal terms share: for a large term, its beginning and
                # a digest of the whole (a term with much sharing would otherwise carry its fully expanded text on every node --
                # gigabytes for the transaction builders)
                import hashlib
                s = s[:120] + "#" + hashlib.blake2b(s.encode("utf8", "surrogatepass"), digest_size=12).hexdigest()
            v._s = s
        return s
    return _fmt(v, _sk)


# ----------------------------------------------------------------------------- constructors
def param(name, ty=ANY):
    return T("param", (name,), ty)


def bv(depth, ty=ANY):
    return T("bv", (depth,), ty)


def unk(tag, ty=ANY):
    return T("unk", (tag,), ty)


def sized(name, n):
    """An arbitrary byte string of exactly n bytes (a symbolic input whose length is fixed by the region under analysis)."""
    if n == 0:
        return b""
    return T("sized", (name, n), BYTES)


def app(name, args, kwargs=(), ty=ANY):
    return T("app", (name, tuple(freeze(a) if isinstance(a, (list, dict)) else a for a in args), tuple(kwargs)), ty)


def cat(parts):
    """bytes concatenation: flatten, merge constants, drop empties."""
    out = []
    for p in parts:
        if isinstance(p, T) and p.op == "cat":
            items = p.args
        else:
            items = (p,)
        for q in items:
            if isinstance(q, (bytes, bytearray)):
                q = bytes(q)
                if not q:
                    continue
                if out and isinstance(out[-1], bytes):
                    out[-1] = out[-1] + q
                    continue
            if out and isinstance(q, T) and q.op == "slice" and isinstance(out[-1], T) and out[-1].op == "slice" and veq(out[-1].args[0], q.args[0]):
                # x[a:b] + x[b:c] is x[a:c]
                lo0, hi0, lo1, hi1 = out[-1].args[1], out[-1].args[2], q.args[1], q.args[2]
                if hi0 is not None and veq(hi0, lo1 if lo1 is not None else 0) and isinstance(hi0, int) and (lo0 is None or isinstance(lo0, int)):
                    out[-1] = slc(q.args[0], lo0, hi1)
                    if isinstance(out[-1], bytes) and len(out) > 1 and isinstance(out[-2], bytes):
                        out[-2:] = [out[-2] + out[-1]]
                    continue
            out.append(q)
    if not out:
        return b""
    if len(out) == 1:
        return out[0]
    return T("cat", out, BYTES)


def scat(parts):
    out = []
    for p in parts:
        items = p.args if isinstance(p, T) and p.op == "scat" else (p,)
        for q in items:
            if isinstance(q, str):
                if not q:
                    continue
                if out and isinstance(out[-1], str):
                    out[-1] = out[-1] + q
                    continue
            out.append(q)
    if not out:
        return ""
    if len(out) == 1:
        return out[0]
    return T("scat", out, STR)


def normalize(form, x):
    """unicodedata.normalize. For the decomposing forms NFD / NFKD an ASCII literal splits the string exactly: ASCII characters
    are starters and decompose to themselves, and canonical reordering never crosses a starter."""
    if isinstance(x, str):
        import unicodedata
        try:
            return unicodedata.normalize(form, x)
        except (ValueError, TypeError):
            pass
    if form in ("NFD", "NFKD") and isinstance(x, T) and x.op == "scat" and any(isinstance(q, str) and q.isascii() for q in x.args):
        return scat([q if isinstance(q, str) and q.isascii() else normalize(form, q) for q in x.args])
    return T("normalize", (form, x), STR)


def encode(x, enc):
    """str.encode for the UTF-8 / ASCII family distributes over concatenation."""
    if isinstance(x, str) and isinstance(enc, str):
        try:
            return x.encode(enc)
        except (UnicodeError, LookupError):
            pass
    if enc in ("utf8", "ascii") and isinstance(x, T) and x.op == "scat":
        return cat([encode(q, enc) for q in x.args])
    return T("encode", (x, enc), BYTES)


def lcat(parts):
    """list concatenation; concrete-structure lists are merged."""
    out = []
    for p in parts:
        items = p.args if isinstance(p, T) and p.op == "lcat" else (p,)
        for q in items:
            if isinstance(q, list):
                if not q:
                    continue
                if out and isinstance(out[-1], list):
                    out[-1] = out[-1] + q
                    continue
            out.append(q)
    if not out:
        return []
    if len(out) == 1:
        return out[0]
    return T("lcat", [freeze(x) if isinstance(x, list) else x for x in out], LIST)


def i2b(x, w, endian):
    if isinstance(x, int) and not isinstance(x, bool) and isinstance(w, int) and isinstance(endian, str):
        try:
            return x.to_bytes(w, endian)
        except (OverflowError, ValueError):
            return T("raise", ("OverflowError",), BYTES)
    if w == 1 and isinstance(endian, str):
        endian = "big"  # a single byte has no byte order
    if isinstance(x, T) and x.op == "ite" and isinstance(w, int) and all(isinstance(a_, int) and not isinstance(a_, bool) for a_ in x.args[1:]):
        return ite(x.args[0], i2b(int(x.args[1]), w, endian), i2b(int(x.args[2]), w, endian))  # a constant chosen by a condition
    if isinstance(x, T) and x.op == "b2i" and isinstance(w, int):
        # i2b(b2i(y, e), len(y), e) == y
        y, e = x.args
        if e == endian and blen(y) == w:
            return y
    return T("i2b", (x, w, endian), BYTES)


def b2i(x, endian):
    if isinstance(x, (bytes, bytearray)) and isinstance(endian, str):
        return int.from_bytes(x, endian)
    if blen(x) == 1:
        endian = "big"
    if isinstance(x, T) and x.op == "i2b" and x.args[2] == endian:
        # b2i(i2b(v, w, e), e) == v when it fits -- i2b raises otherwise, so on non-raising inputs equal
        return x.args[0]
    if isinstance(x, T) and x.op == "ite" and tyof(x) == BYTES:
        return ite(x.args[0], b2i(_unfz1(x.args[1]), endian), b2i(_unfz1(x.args[2]), endian))
    return T("b2i", (x, endian), INT)


def bytewise(m):
    """bytes(a ^ b for a, b in zip(X, Y)) (likewise & and |) over two byte strings of one known length n is the n-byte big-endian
    encoding of int(X) op int(Y); None for any other shape."""
    m = _unfz1(m)
    if not (isinstance(m, T) and m.op == "map" and m.args[2] is None):
        return None
    body, z = m.args[0], m.args[1]
    if not (isinstance(z, T) and z.op == "app" and z.args[0] == "zip" and len(z.args[1]) == 2 and not z.args[2]):
        if not (isinstance(z, T) and z.op == "zip" and len(z.args) == 2):
            return None
        x, y = z.args
    else:
        x, y = z.args[1]
    if tyof(x) != BYTES or tyof(y) != BYTES:
        return None
    n = blen(x)
    if not (isinstance(n, int) and not isinstance(n, bool) and blen(y) == n):
        return None
    if not (isinstance(body, T) and body.op in ("bxor", "band", "bor") and len(body.args) == 2):
        return None
    d = None
    sides = set()
    for a in body.args:
        if not (isinstance(a, T) and a.op == "proj" and isinstance(a.args[0], T) and a.args[0].op == "bv" and a.args[1] in (0, 1)):
            return None
        if d is not None and a.args[0].args[0] != d:
            return None
        d = a.args[0].args[0]
        sides.add(a.args[1])
    if sides != {0, 1}:
        return None
    return i2b(binop(body.op, b2i(x, "big"), b2i(y, "big")), n, "big")


def hashf(algo, x):
    return T("hash", (algo, x), BYTES)


def hmacf(algo, key, msg):
    return T("hmac", (algo, key, msg), BYTES)


HASHLEN = {"sha256": 32, "sha512": 64, "ripemd160": 20, "sha1": 20}


def blen(x):
    """Length of a bytes/str/list value if statically known (int), else a term, else None."""
    if isinstance(x, (bytes, str, list, tuple, dict)):
        return len(x)
    if isinstance(x, T):
        if x.op == "i2b":
            return x.args[1]
        if x.op == "sized":
            return x.args[1]
        if x.op == "hash":
            return HASHLEN.get(x.args[0])
        if x.op == "hmac":
            return HASHLEN.get(x.args[0])
        if x.op in ("cat", "scat"):
            tot = []
            for p in x.args:
                n = blen(p)
                if n is None:
                    n = T("len", (p,), INT)
                tot.append(n)
            return add(tot)
        if x.op == "rep":
            b, n = x.args
            bl = blen(b)
            if isinstance(bl, int):
                return mul([bl, n])
        if x.op == "slice":
            base, lo, hi = x.args
            n = blen(base)
            if isinstance(lo, int) and isinstance(hi, int) and lo >= 0 and hi >= lo and isinstance(n, int):
                return max(0, min(hi, n) - lo)
            if isinstance(n, int) and not isinstance(n, bool) and (lo is None or (isinstance(lo, int) and not isinstance(lo, bool))) and \
                    (hi is None or (isinstance(hi, int) and not isinstance(hi, bool))):
                return len(range(*slice(lo, hi).indices(n)))
            if isinstance(n, int) and isinstance(lo, T) and isinstance(hi, T) and veq(hi, add([1, lo])):
                # base[v:v+1] with v confined to the valid indices: exactly one element
                from . import ival as _ival
                try:
                    l_, h_ = _ival.interval(lo, [])
                except RecursionError:
                    l_ = h_ = None
                if l_ is not None and h_ is not None and 0 <= l_ and h_ < n:
                    return 1
        if x.op == "fmt" and isinstance(x.args[1], str) and x.args[1].startswith("0") and x.args[1][-1:] in ("b", "x") and x.args[1][1:-1].isdigit():
            # format(v, "0Nb") / "0Nx" is exactly N characters when v is known to fit (v read from at most N bits of bytes)
            w = int(x.args[1][1:-1])
            v = x.args[0]
            per = 1 if x.args[1][-1] == "b" else 4
            if isinstance(v, T) and v.op == "b2i":
                nb = blen(v.args[0])
                if isinstance(nb, int) and not isinstance(nb, bool) and 8 * nb <= w * per:
                    return w
        if x.op == "ite":
            n1, n2 = blen(_unfz1(x.args[1])), blen(_unfz1(x.args[2]))
            if isinstance(n1, int) and n1 == n2:
                return n1
        if x.op == "hex":
            n = blen(x.args[0])
            if n is not None:
                return mul([2, n])
    return None


def length(x):
    n = blen(x)
    if n is not None:
        return n
    return T("len", (x,), INT)


def slc(x, lo, hi):
    """x[lo:hi]; lo/hi are None, ints or terms."""
    if lo == 0:
        lo = None
    if isinstance(x, (bytes, str, list, tuple)) and (lo is None or isinstance(lo, int)) and (hi is None or isinstance(hi, int)):
        return x[lo:hi]
    if lo is None and hi is None:
        return x
    n = blen(x)
    if isinstance(n, int):
        # normalise against a known length
        l2 = lo if lo is not None else 0
        h2 = hi if hi is not None else n
        if isinstance(l2, int) and isinstance(h2, int):
            if l2 < 0:
                l2 = max(0, n + l2)
            if h2 < 0:
                h2 = max(0, n + h2)
            h2 = min(h2, n)
            l2 = min(l2, n)
            if l2 == 0 and h2 == n:
                return x
            if l2 >= h2:
                return b"" if tyof(x) == BYTES else T("slice", (x, l2, h2), tyof(x))
            # slice of a cat with known part lengths
            if isinstance(x, T) and x.op == "cat":
                pos = 0
                out = []
                ok = True
                for p in x.args:
                    pl = blen(p)
                    if not isinstance(pl, int):
                        ok = False
                        break
                    a, b = max(l2, pos), min(h2, pos + pl)
                    if a < b:
                        if a == pos and b == pos + pl:
                            out.append(p)
                        else:
                            out.append(slc(p, a - pos, b - pos))
                    pos += pl
                if ok:
                    return cat(out)
            lo, hi = (l2 if l2 else None), (h2 if h2 != n else None)
    if isinstance(x, T) and x.op == "slice":
        b0, lo0, hi0 = x.args
        n0 = blen(b0)
        if isinstance(n0, int) and not isinstance(n0, bool) and all(v is None or (isinstance(v, int) and not isinstance(v, bool)) for v in (lo0, hi0, lo, hi)):
            r = range(n0)[lo0:hi0][lo:hi]  # both slices against the known length of the base
            return slc(b0, r.start, r.stop) if len(r) else (b"" if tyof(x) == BYTES else slc(b0, 0, 0))
        if hi is None and _nonneg(lo) and lo is not None and (lo0 is None or _nonneg(lo0)) and hi0 is not None:
            # (b[lo0:hi0])[lo:] is b[lo0+lo:hi0] for non-negative lo0, lo and any hi0 (negative = from the end)
            return slc(b0, add([lo0 if lo0 is not None else 0, lo]), hi0)
        # (b[lo0:])[lo:hi] with non-negative bounds
        if hi0 is None and _nonneg(lo0) and _nonneg(lo) and (hi is None or _nonneg(hi)):
            nlo = add([lo0, lo if lo is not None else 0])
            nhi = None if hi is None else add([lo0, hi])
            return slc(b0, nlo, nhi)
    return T("slice", (x, lo, hi), tyof(x) if tyof(x) in (BYTES, STR, LIST, TUPLE) else ANY)


def _nonneg(v):
    if v is None:
        return True
    if isinstance(v, int):
        return v >= 0
    if isinstance(v, T):
        if v.op in ("len", "b2i", "idx"):
            return True
        if v.op == "add":
            return all(_nonneg(a) for a in v.args)
        if v.op == "mul":
            return all(_nonneg(a) for a in v.args)
    return False


def idx(x, i):
    if isinstance(x, (bytes, str, list, tuple)) and isinstance(i, int) and not isinstance(i, bool):
        try:
            return x[i]
        except IndexError:
            return T("raise", ("IndexError",), ANY)
    if isinstance(x, dict) and is_conc(i):
        try:
            if i in x:
                return x[i]
            return T("raise", ("KeyError",), ANY)
        except TypeError:
            pass
    if isinstance(x, T) and x.op == "cat" and isinstance(i, int) and i >= 0:
        pos = 0
        for p in x.args:
            pl = blen(p)
            if not isinstance(pl, int):
                break
            if i < pos + pl:
                return idx(p, i - pos)
            pos += pl
    if isinstance(x, T) and x.op == "i2b" and x.args[1] == 1 and i in (0, -1) and _is_byte_term(x.args[0]):
        return x.args[0]  # the one byte of the one-byte encoding of a byte value
    if isinstance(x, T) and isinstance(i, int) and not isinstance(i, bool) and x.op in ("slice", "sized", "i2b", "hash"):
        n = blen(x)
        if isinstance(n, int) and not isinstance(n, bool):
            if not -n <= i < n:
                return T("raise", ("IndexError",), ANY)
            if i < 0:
                i += n
            if x.op == "slice":
                nb = blen(x.args[0])
                if isinstance(nb, int) and (x.args[1] is None or isinstance(x.args[1], int)) and (x.args[2] is None or isinstance(x.args[2], int)):
                    return idx(x.args[0], range(*slice(x.args[1], x.args[2]).indices(nb))[i])
                if n == 1 and i == 0 and isinstance(x.args[1], T):
                    return idx(x.args[0], x.args[1])  # base[v:v+1][0] is base[v]
    if isinstance(x, T) and x.op == "map" and x.args[2] is None:
        body, it = x.args[0], x.args[1]
        depths = [s.args[0] for s in subterms(body) if isinstance(s, T) and s.op in ("bv", "bvi")]
        if depths:
            d = min(depths)
            elem = idx(it, i)
            if isinstance(it, T) and it.op == "enumerate":
                elem = idx(it.args[0], i)
            return subst(body, lambda s: (elem if s.op == "bv" else i) if isinstance(s, T) and s.op in ("bv", "bvi") and s.args[0] == d else None)
    ty = ANY
    if tyof(x) == BYTES:
        ty = INT
    if isinstance(x, T) and tyof(x) in (ANY, TUPLE) and isinstance(i, int) and not isinstance(i, bool) and i >= 0 and x.op in ("app", "proj", "ite", "unk"):
        return T("proj", (x, i), ANY)  # pair[i] and tuple unpacking name the same component of a returned tuple
    return T("idx", (x, i), ty)


# ----------------------------------------------------------------------------- integer ring
def _flat(op, items):
    out = []
    for a in items:
        if isinstance(a, T) and a.op == op:
            out.extend(a.args)
        else:
            out.append(a)
    return out


def add(items):
    items = _flat("add", items)
    const = 0
    coeff = {}
    order = []
    for a in items:
        if isinstance(a, bool):
            a = int(a)
        if isinstance(a, (int, float)):
            const += a
            continue
        c, base = 1, a
        if isinstance(a, T) and a.op == "mul" and isinstance(a.args[0], int):
            c = a.args[0]
            rest = a.args[1:]
            base = rest[0] if len(rest) == 1 else T("mul", rest, INT)
        if base in coeff:
            coeff[base] += c
        else:
            coeff[base] = c
            order.append(base)
    terms = []
    for b in order:
        c = coeff[b]
        if c == 0:
            continue
        terms.append(b if c == 1 else mul([c, b]))
    terms.sort(key=sortkey)
    if const != 0 or not terms:
        terms = [const] + terms
    if len(terms) == 1:
        return terms[0]
    return T("add", terms, INT)


def sub(a, b):
    return add([a, mul([-1, b])])


def mul(items):
    items = _flat("mul", items)
    const = 1
    rest = []
    for a in items:
        if isinstance(a, bool):
            a = int(a)
        if isinstance(a, (int, float)):
            const *= a
        else:
            rest.append(a)
    if const == 0:
        return 0
    if not rest:
        return const
    # distribute a constant over a sum (keeps linear forms canonical)
    if len(rest) == 1 and isinstance(rest[0], T) and rest[0].op == "add" and isinstance(const, int) and const != 1:
        return add([mul([const, t]) for t in rest[0].args])
    rest.sort(key=sortkey)
    if const != 1:
        rest = [const] + rest
    if len(rest) == 1:
        return rest[0]
    return T("mul", rest, INT if not isinstance(const, float) else FLOAT)


def binop(op, a, b):
    """Remaining integer binary operators, constant-folded."""
    if is_conc(a) and is_conc(b) and not isinstance(a, (list, dict)):
        try:
            if op == "floordiv":
                return a // b
            if op == "mod":
                return a % b
            if op == "pow":
                if isinstance(b, int) and (abs(b) > 2000000 or (isinstance(a, int) and abs(a) > 2 ** 64 and abs(b) > 4096)):
                    raise ValueError
                return a ** b
            if op == "band":
                return a & b
            if op == "bor":
                return a | b
            if op == "bxor":
                return a ^ b
            if op == "shl":
                if b > 2000000:
                    raise ValueError
                return a << b
            if op == "shr":
                return a >> b
            if op == "div":
                return a / b
        except (ZeroDivisionError,):
            return T("raise", ("ZeroDivisionError",), INT)
        except (TypeError, ValueError):
            pass
    if op == "band" and (a == 1 or b == 1) and not (a == 1 and b == 1):
        other = b if a == 1 else a
        if isinstance(other, T) and tyof(other) in (INT, ANY):
            return mod(other, 2)  # the lowest bit of an integer is its parity
    if op in ("band", "bor", "bxor"):
        x, y = sorted([a, b], key=sortkey)
        return T(op, (x, y), INT)
    if op == "mod" and isinstance(a, T) and a.op == "mod" and veq(a.args[1], b):
        return a
    ty = FLOAT if op == "div" else INT
    return T(op, (a, b), ty)


def mod(a, m):
    return binop("mod", a, m)


_NEVER_NONE = {"cat", "i2b", "b2i", "hash", "hmac", "add", "mul", "mod", "len", "hex", "unhex", "slice", "scat", "lcat",
               "map", "join", "rep", "cmp", "not", "land", "lor", "truth", "inrange", "powmod", "bitlen", "csprng", "floordiv",
               "band", "bor", "bxor", "shl", "shr", "pow", "fn", "sized", "fmt", "rev", "i2b_signed", "b2i_signed"}

CMP_SWAP = {"lt": "gt", "gt": "lt", "le": "ge", "ge": "le", "eq": "eq", "ne": "ne"}
CMP_NEG = {"lt": "ge", "ge": "lt", "gt": "le", "le": "gt", "eq": "ne", "ne": "eq", "in": "notin", "notin": "in",
           "is": "isnot", "isnot": "is"}


def cmp(op, a, b):
    if is_conc(a) and is_conc(b):
        try:
            if op == "lt":
                return a < b
            if op == "le":
                return a <= b
            if op == "gt":
                return a > b
            if op == "ge":
                return a >= b
            if op == "eq":
                return a == b
            if op == "ne":
                return a != b
            if op == "in":
                return a in b
            if op == "notin":
                return a not in b
            if op == "is":
                return a is b if (a is None or b is None or isinstance(a, bool)) else a == b
            if op == "isnot":
                return a is not b if (a is None or b is None or isinstance(a, bool)) else a != b
        except TypeError:
            pass
    if op in ("is", "isnot") and (a is None or b is None):
        # `x is None` for a choice between None and things that are not None (objects, members, numbers): decided per branch
        x = b if a is None else a
        if isinstance(x, T) and x.op == "ite":
            def _none(v):
                v = _unfz1(v)
                if v is None:
                    return True
                if isinstance(v, T):
                    return cmp("is", v, None) if v.op == "ite" else NotImplemented
                return False
            l_, r_ = _none(x.args[1]), _none(x.args[2])
            if l_ is not NotImplemented and r_ is not NotImplemented:
                res = ite(x.args[0], l_, r_)
                return res if op == "is" else lnot(res)
    if op in ("in", "notin") and isinstance(a, T) and a.op == "idx" and isinstance(a.args[0], bytes) and isinstance(a.args[1], T) and \
            isinstance(b, (tuple, bytes, list, set, frozenset)) and all(isinstance(x, int) for x in b):
        # TABLE[v] for a constant byte table and an index confined to a range: a member of the set when every entry in that
        # range is (the characters an encoder emits from 5-bit values are characters of the alphabet)
        from . import ival as _ival
        try:
            lo_, hi_ = _ival.interval(a.args[1], [])
        except RecursionError:
            lo_ = hi_ = None
        if lo_ is not None and hi_ is not None and 0 <= lo_ <= hi_ < len(a.args[0]):
            vals_ = set(a.args[0][lo_:hi_ + 1])
            if vals_ <= set(b):
                return op == "in"
            if not (vals_ & set(b)):
                return op == "notin"
    if op in ("eq", "ne") and isinstance(a, (list, tuple)) and isinstance(b, (list, tuple)) and type(a) is type(b) and \
            not (a and isinstance(a[0], str) and a[0].startswith("#")) and not (b and isinstance(b[0], str) and b[0].startswith("#")):
        # two sequences of known structure: equal iff same length and equal element by element
        if len(a) != len(b):
            return op == "ne"
        same = land([cmp("eq", x, y) for x, y in zip(a, b)])
        return same if op == "eq" else lnot(same)
    if op in ("is", "isnot", "eq", "ne") and isinstance(a, T) and isinstance(b, T) and a.op == "ext" and b.op == "ext":
        same = a.args[0] == b.args[0]
        return same if op in ("is", "eq") else not same
    if op in ("eq", "ne", "is", "isnot") and (isinstance(a, bool) or isinstance(b, bool)):
        k, other = (a, b) if isinstance(a, bool) else (b, a)
        if isinstance(other, T) and other.ty == BOOL:  # (c == True) is c, (c == False) is not c
            pos = (k is True) == (op in ("eq", "is"))
            return other if pos else lnot(other)
    if op in ("is", "isnot") and (a is None or b is None):
        other = b if a is None else a
        if other is not None and isinstance(other, (list, tuple, dict, bytes, str, int, float)):
            return op == "isnot"  # a list / tuple / ... of known structure (whatever its elements) is not None
        if isinstance(other, T) and other.op in _NEVER_NONE:
            return op == "isnot"
        if isinstance(other, T) and other.op == "idx" and tyof(_unfz1(other.args[0])) == BYTES:
            return op == "isnot"  # an element of a byte string is an integer
    # canonical orientation: constant on the right; gt/ge rewritten to lt/le
    if op in CMP_SWAP and (not isinstance(a, T)) and isinstance(b, T):
        a, b, op = b, a, CMP_SWAP[op]
    if op in CMP_SWAP and isinstance(a, T) and isinstance(b, T) and sortkey(a) > sortkey(b):
        a, b, op = b, a, CMP_SWAP[op]  # `n > i` and `i < n` are one term
    if op in ("eq", "ne") and b in (0, 1) and not isinstance(b, bool) and isinstance(a, T) and a.op == "mod" and a.args[1] == 2:
        # parity tests: x % 2 == 1, x % 2 != 0 and bool(x % 2) are one term; == 0 / != 1 its negation
        odd = truth(a)
        return odd if (op == "eq") == (b == 1) else lnot(odd)
    if op in ("in", "notin") and isinstance(a, T):
        # one byte against a constant set of bytes -- `c in b"abc"`, `bytes([c]) in b"abc"`, `s[i:i+1] in {b"a": .., b"b": ..}` --
        # is one term: the byte as an integer, the set as sorted bytes
        one = _single_byte(a)
        bs = _byte_set(b) if (a.ty == BYTES or isinstance(b, bytes)) else None  # an int is never a member of a collection of bytes objects
        if one is not None and bs is not None:
            return T("cmp", (op, one, bs), BOOL)
    if op in ("in", "notin") and isinstance(b, (list, tuple)) and is_conc(b):
        b = tuple(b)
        if not (b and b[0] in ("#list", "#tuple")):
            try:  # membership in a constant collection does not depend on order or repetition
                b = tuple(sorted(set(b), key=repr))
            except TypeError:
                pass
        if len(b) == 1:
            return cmp("eq" if op == "in" else "ne", a, b[0])
    if op in ("in", "notin") and isinstance(b, range) and b.step == 1:
        r = T("inrange", (a, b.start, b.stop), BOOL)
        return r if op == "in" else lnot(r)
    if op in ("in", "notin") and isinstance(b, T) and b.op == "range" and b.args[2] == 1:
        r = T("inrange", (a, b.args[0], b.args[1]), BOOL)
        return r if op == "in" else lnot(r)
    return T("cmp", (op, a, freeze(b) if isinstance(b, (list, dict)) else b), BOOL)


def _single_byte(a):
    """The integer value of a term that is exactly one byte (an element of a bytes value, or a 1-byte bytes value); else None."""
    if a.ty == BYTES:
        if a.op == "i2b" and a.args[1] == 1 and _is_byte_term(a.args[0]):
            return a.args[0]
        if blen(a) == 1:
            return idx(a, 0)
        return None
    if _is_byte_term(a):
        return a
    return None


def _byte_set(b):
    """A constant collection of single bytes as sorted bytes: bytes itself (membership of ONE byte), or a dict / tuple / list
    whose members are all 1-byte bytes; else None."""
    if isinstance(b, bytes):
        return bytes(sorted(set(b)))
    if isinstance(b, tuple) and b and b[0] == "#dict":
        keys = [kv[0] for kv in b[1:]]
    elif isinstance(b, dict):
        keys = list(b.keys())
    elif isinstance(b, tuple) and b and b[0] in ("#list", "#tuple"):
        keys = list(b[1:])
    elif isinstance(b, (list, tuple)):
        keys = list(b)
    else:
        return None
    if keys and all(isinstance(k, bytes) and len(k) == 1 for k in keys):
        return bytes(sorted({k[0] for k in keys}))
    return None


def lnot(a):
    if not isinstance(a, T):
        return not a
    if a.op == "not":
        return truth(a.args[0])
    if a.op == "cmp" and a.args[0] in CMP_NEG:
        return T("cmp", (CMP_NEG[a.args[0]],) + a.args[1:], BOOL)
    return T("not", (a,), BOOL)


def truth(a):
    """bool(a) as a term."""
    if not isinstance(a, T):
        return bool(a)
    if a.ty == BOOL:
        return a
    if a.op == "boolop":
        return a.args[1]
    if a.op == "ite":
        return ite(a.args[0], truth(_unfz1(a.args[1])), truth(_unfz1(a.args[2])))
    if a.op in ("cat", "scat") and any(isinstance(p, (str, bytes)) and len(p) for p in a.args):
        return True
    if a.ty == BYTES and a.op in ("slice", "sized", "i2b", "hash", "cat"):
        n = blen(a)
        if isinstance(n, int) and not isinstance(n, bool):
            return n > 0  # bytes of a known length are true iff that length is not zero
    if a.op == "m:translate" and len(a.args) == 3 and a.args[1] is None and isinstance(a.args[2], bytes):
        # x.translate(None, DELETE) is what remains of x after deleting the bytes of DELETE: non-empty iff some byte of x is
        # not in DELETE -- for x of known length, byte by byte
        x_ = _unfz_shallow(a.args[0])
        n = blen(x_) if isinstance(x_, (T, bytes)) else None
        if isinstance(n, int) and not isinstance(n, bool) and n <= 512:
            members = tuple(sorted(set(a.args[2])))
            return lor([cmp("notin", idx(x_, i), members) for i in range(n)])
    if a.op == "band" and len(a.args) == 2 and 128 in a.args and any(_is_byte_term(x) for x in a.args):
        y = [x for x in a.args if _is_byte_term(x)][0]
        return cmp("ge", y, 128)  # the top bit of a byte is set  <=>  the byte is >= 0x80
    if a.op == "shr" and a.args[1] == 7 and _is_byte_term(a.args[0]):
        return cmp("ge", a.args[0], 128)
    return T("truth", (a,), BOOL)


def _is_byte_term(v):
    return isinstance(v, T) and v.op == "idx" and tyof(_unfz1(v.args[0])) == BYTES


def _unfz1(v):
    if isinstance(v, tuple) and v and v[0] == "#bool":
        return v[1]
    return v


def land(items):
    out = []
    for a in _flat("land", items):
        if not isinstance(a, T):
            if not a:
                return False
            continue
        if a not in out:
            out.append(a)
    out = _merge_membership(out, "ne", "notin")
    # len(x) == k and D.startswith(x)   is   x == D[:k]   (and likewise endswith / D[-k:])
    for sw in [a for a in out if isinstance(a, T) and a.op in ("startswith", "endswith") and len(a.args) == 2]:
        D, x = sw.args
        for lc in out:
            if isinstance(lc, T) and lc.op == "cmp" and lc.args[0] == "eq":
                l_, k_ = (lc.args[1], lc.args[2]) if isinstance(lc.args[2], int) else (lc.args[2], lc.args[1])
                if isinstance(k_, int) and not isinstance(k_, bool) and k_ > 0 and isinstance(l_, T) and veq(l_, length(x)):
                    piece = slc(D, None, k_) if sw.op == "startswith" else slc(D, -k_, None)
                    out = [a for a in out if a is not sw and a is not lc] + [cmp("eq", x, piece)]
                    break
    if not out:
        return True
    if len(out) == 1:
        return out[0]
    return T("land", out, BOOL)


def _merge_membership(items, single, multi):
    """x == c1 or x == c2 (x != c1 and x != c2) is x in (c1, c2) (x not in (c1, c2)): one canonical term."""
    groups = []
    for a in items:
        if isinstance(a, T) and a.op == "cmp" and a.args[0] in (single, multi) and isinstance(a.args[1], T):
            c = a.args[2]
            vals = None
            if a.args[0] == single and is_conc(c) and not isinstance(c, (list, tuple, dict)):
                vals = (c,)
            elif a.args[0] == multi and isinstance(c, tuple) and is_conc(c) and not (c and c[0] in ("#list", "#tuple")):
                vals = c
            if vals is not None:
                for g in groups:
                    if g[0] == "m" and veq(g[1], a.args[1]):
                        g[2].extend(vals)
                        break
                else:
                    groups.append(["m", a.args[1], list(vals), a])
                continue
        groups.append(["o", a])
    out = []
    for g in groups:
        if g[0] == "o":
            out.append(g[1])
        elif len(g[2]) == 1 or (g[3].args[0] == multi and len(set(map(repr, g[2]))) == len(g[3].args[2])):
            out.append(g[3])
        else:
            out.append(cmp(multi, g[1], tuple(g[2])))
    return out


def lor(items):
    out = []
    for a in _flat("lor", items):
        if not isinstance(a, T):
            if a:
                return True
            continue
        if a not in out:
            out.append(a)
    out = _merge_membership(out, "eq", "in")
    if not out:
        return False
    if len(out) == 1:
        return out[0]
    return T("lor", out, BOOL)


_EMPTY = {BYTES: b"", STR: ""}


def ite(c, a, b):
    if not isinstance(c, T):
        return a if c else b
    if veq(a, b):
        return a
    if isinstance(a, T) and a.ty in _EMPTY and b == _EMPTY[a.ty] and type(b) is type(_EMPTY[a.ty]) and c.op == "truth" and veq(_unfz1(c.args[0]), a):
        return a  # `x or b""` for a bytes-valued x is x
    if c.op == "not":
        return ite(c.args[0], b, a)
    if a is True and b is False:
        return c
    if a is False and b is True:
        return lnot(c)
    if c.ty == BOOL or c.op in ("cmp", "not", "truth", "land", "lor"):
        # a flag set under a condition: (True if c else b) is c or b, ... -- for boolean-valued b
        if a is True and isinstance(b, T) and b.ty == BOOL:
            return lor([c, b])
        if b is False and isinstance(a, T) and a.ty == BOOL:
            return land([c, a])
        if a is False and isinstance(b, T) and b.ty == BOOL:
            return land([lnot(c), b])
        if b is True and isinstance(a, T) and a.ty == BOOL:
            return lor([lnot(c), a])
    if isinstance(b, T) and b.op == "ite" and veq(b.args[0], c):
        return ite(c, a, _unfz1(b.args[2]))
    if isinstance(a, T) and a.op == "ite" and veq(a.args[0], c):
        return ite(c, _unfz1(a.args[1]), b)
    ty = tyof(a) if tyof(a) == tyof(b) else ANY
    return T("ite", (c, _fz(a), _fz(b)), ty)


def _fz(v):
    return freeze(v) if isinstance(v, (list, dict)) else v


def hexs(x):
    if isinstance(x, (bytes, bytearray)):
        return bytes(x).hex()
    if isinstance(x, T) and x.op == "unhex":
        return x.args[0]
    return T("hex", (x,), STR)


def unhex(x):
    if isinstance(x, str):
        try:
            return bytes.fromhex(x)
        except ValueError:
            return T("raise", ("ValueError",), BYTES)
    if isinstance(x, T) and x.op == "hex":
        return x.args[0]
    if isinstance(x, T) and x.op in ("scat", "fmt"):
        # bytes.fromhex(f"{a:02x}{b:064x}..."): literal pairs of hex digits and zero-padded fixed-width hexadecimal numbers are
        # the bytes and the big-endian integers they spell -- for values that fit their width (0 <= v < 16^width), the domain on
        # which `v.to_bytes(width // 2, "big")` is defined; a part padded otherwise (`{y:64x}` pads with spaces) stays as written
        import re as _re
        parts, ok = [], True
        for q in (x.args if x.op == "scat" else (x,)):
            if isinstance(q, str) and len(q) % 2 == 0 and _re.fullmatch(r"[0-9a-fA-F]*", q):
                parts.append(bytes.fromhex(q))
            elif isinstance(q, T) and q.op == "fmt" and isinstance(q.args[1], str) and _re.fullmatch(r"0(\d+)x", q.args[1]) and int(q.args[1][1:-1]) % 2 == 0 and \
                    q.args[2] == -1 and tyof(_unfz1(q.args[0])) in (INT, BOOL):
                parts.append(i2b(_unfz1(q.args[0]), int(q.args[1][1:-1]) // 2, "big"))
            else:
                ok = False
                break
        if ok and parts:
            return cat(parts)
    return T("unhex", (x,), BYTES)


def rep(b, n):
    if isinstance(b, (bytes, str, list)) and isinstance(n, int):
        return b * n
    return T("rep", (b, n), tyof(b))


def mapt(body, iterable, cond=None, ty=LIST):
    return T("map", (body, _fz(iterable), cond), ty)


def join(sep, lst):
    if isinstance(lst, (list, tuple)):
        if tyof(sep) == BYTES:
            parts = []
            for i, e in enumerate(lst):
                if i and sep:
                    parts.append(sep)
                parts.append(e)
            if sep == b"" or len(lst) <= 1 or isinstance(sep, bytes):
                return cat(parts)
        if isinstance(sep, str) and all(isinstance(e, str) for e in lst):
            return sep.join(lst)
    if isinstance(lst, T) and lst.op == "ite" and len(lst.args) == 3:
        a_, b_ = _unfz_shallow(lst.args[1]), _unfz_shallow(lst.args[2])
        if isinstance(a_, (list, tuple)) and isinstance(b_, (list, tuple)) and not (a_ and isinstance(a_[0], str) and str(a_[0]).startswith("#")) and \
                not (b_ and isinstance(b_[0], str) and str(b_[0]).startswith("#")):
            return ite(lst.args[0], join(sep, list(a_)), join(sep, list(b_)))  # joining either of two lists of known structure
    if isinstance(lst, T) and lst.op == "lcat" and sep in (b"", ""):
        # joining a concatenation of lists with the empty separator: the joined pieces, concatenated
        pieces = [join(sep, _unfz_shallow(p)) for p in lst.args]
        return cat(pieces) if sep == b"" else scat(pieces)
    return T("join", (sep, _fz(lst)), tyof(sep) if tyof(sep) in (BYTES, STR) else ANY)


# ----------------------------------------------------------------------------- traversal / printing
def subterms(v, _seen=None):
    """All sub-values (terms and leaves) of v, pre-order; a shared sub-term object is visited once."""
    if _seen is None:
        _seen = set()
    if isinstance(v, (T, list, tuple, dict)):
        if id(v) in _seen:
            return
        _seen.add(id(v))
    yield v
    if isinstance(v, T):
        for a in v.args:
            yield from subterms(a, _seen)
    elif isinstance(v, (list, tuple)):
        for a in v:
            yield from subterms(a, _seen)
    elif isinstance(v, dict):
        for a in v.values():
            yield from subterms(a, _seen)


def contains(v, pred):
    return any(pred(s) for s in subterms(v))


def renorm(op, args, ty):
    """Rebuild a term through its normalising constructor (used after substitution)."""
    a = args
    try:
        if op == "add":
            return add(list(a))
        if op == "mul":
            return mul(list(a))
        if op == "cat":
            return cat(list(a))
        if op == "scat":
            return scat(list(a))
        if op in ("mod", "floordiv", "pow", "band", "bor", "bxor", "shl", "shr", "div"):
            return binop(op, a[0], a[1])
        if op == "cmp":
            return cmp(a[0], a[1], _unfz_shallow(a[2]))
        if op == "not":
            return lnot(a[0])
        if op == "truth":
            return truth(a[0])
        if op == "land":
            return land(list(a))
        if op == "lor":
            return lor(list(a))
        if op == "ite":
            return ite(a[0], _unfz_shallow(a[1]), _unfz_shallow(a[2]))
        if op == "i2b":
            return i2b(a[0], a[1], a[2])
        if op == "b2i":
            return b2i(a[0], a[1])
        if op == "slice":
            return slc(_unfz_shallow(a[0]), a[1], a[2])
        if op == "idx":
            return idx(_unfz_shallow(a[0]), a[1])
        if op == "len":
            return length(_unfz_shallow(a[0]))
        if op == "proj" and isinstance(a[1], int) and not isinstance(a[1], bool):
            base = _unfz_shallow(a[0])
            if isinstance(base, (list, tuple)) and not (base and isinstance(base[0], str) and base[0].startswith("#")) and 0 <= a[1] < len(base):
                return base[a[1]]  # a component of a tuple that has become explicit
            if isinstance(base, (list, tuple)):
                return T(op, (_fz(base), a[1]), ty)
        if op == "inrange" and all(isinstance(x, int) and not isinstance(x, bool) for x in a):
            return a[1] <= a[0] < a[2]
        if op == "hex":
            return hexs(a[0])
        if op == "unhex":
            return unhex(a[0])
        if op == "rep":
            return rep(a[0], a[1])
        if op == "bitlen" and isinstance(a[0], int):
            return a[0].bit_length()
        if op in ("lookup", "get") and isinstance(a[0], tuple) and a[0] and a[0][0] == "#dict" and is_conc(a[1]) and not isinstance(a[1], (list, dict)):
            for kv in a[0][1:]:
                if veq(kv[0], a[1]):
                    return _unfz_shallow(kv[1])
            if op == "lookup":
                return T("raise", ("KeyError",), ANY)
            return _unfz_shallow(a[2]) if len(a) > 2 else None
    except (TypeError, ValueError, IndexError):
        pass
    return T(op, a, ty)


def _unfz_shallow(v):
    if isinstance(v, tuple) and v and v[0] == "#bool":
        return v[1]
    if isinstance(v, tuple) and v and v[0] == "#list":
        return [_unfz_shallow(x) for x in v[1:]]
    if isinstance(v, tuple) and v and v[0] == "#tuple":
        return tuple(_unfz_shallow(x) for x in v[1:])
    return v


def subst(v, f, memo=None):
    """Bottom-up rewrite: f(term) -> replacement or None.  Rebuilt terms are re-normalised.  Shared sub-terms are
    rewritten once (memo)."""
    if memo is None:
        memo = {}
    if isinstance(v, T):
        hit = memo.get(v, memo)
        if hit is not memo:
            return hit
        newargs = [subst(a, f, memo) for a in v.args]
        changed = any(x is not y and not veq(x, y) for x, y in zip(newargs, v.args))
        new = renorm(v.op, newargs, v.ty) if changed else v
        r = f(new) if isinstance(new, T) else None
        out = new if r is None else r
        memo[v] = out
        return out
    if isinstance(v, list):
        return [subst(a, f, memo) for a in v]
    if isinstance(v, tuple):
        return tuple(subst(a, f, memo) for a in v)
    if isinstance(v, dict):
        return {k: subst(a, f, memo) for k, a in v.items()}
    r = f(v)
    return v if r is None else r


_INFIX = {"add": " + ", "mul": "*", "cat": " ‖ ", "scat": " ++ ", "land": " ∧ ", "lor": " ∨ ", "lcat": " @ "}
_CMP = {"lt": "<", "le": "<=", "gt": ">", "ge": ">=", "eq": "==", "ne": "!=", "in": "in", "notin": "not in", "is": "is",
        "isnot": "is not"}


def show(v, depth=0):
    if depth > 40:
        return "…"
    return _fmt(v, lambda x: show(x, depth + 1))


def _fmt(v, rec):
    if isinstance(v, T):
        o, a = v.op, v.args
        if o == "param":
            return str(a[0])
        if o == "bv":
            return "$%s" % a[0]
        if o == "unk":
            return "?%s" % (a[0],)
        if o in _INFIX:
            return "(" + _INFIX[o].join(rec(x) for x in a) + ")"
        if o == "cmp":
            return "(%s %s %s)" % (rec(a[1]), _CMP.get(a[0], a[0]), rec(a[2]))
        if o == "app":
            kw = ["%s=%s" % (k, rec(x)) for k, x in a[2]]
            return "%s(%s)" % (a[0], ", ".join([rec(x) for x in a[1]] + kw))
        if o == "slice":
            return "%s[%s:%s]" % (rec(a[0]), "" if a[1] is None else rec(a[1]), "" if a[2] is None else rec(a[2]))
        if o == "idx":
            return "%s[%s]" % (rec(a[0]), rec(a[1]))
        return "%s(%s)" % (o, ", ".join(rec(x) for x in a))
    if isinstance(v, bytes):
        if len(v) > 12 and len(set(v)) == 1:
            return "%02x*%d" % (v[0], len(v))
        return "h'" + v.hex() + "'"
    if isinstance(v, int) and not isinstance(v, bool) and abs(v) > 2 ** 20:
        return hex(v)
    if isinstance(v, tuple) and v and v[0] in ("#list", "#tuple"):
        return "[" + ", ".join(rec(x) for x in v[1:]) + "]"
    if isinstance(v, (list, tuple)):
        return "[" + ", ".join(rec(x) for x in v) + "]"
    if isinstance(v, dict):
        return "{" + ", ".join("%s: %s" % (rec(k), rec(x)) for k, x in v.items()) + "}"
    return repr(v)


def first_diff(a, b, path="", depth=0):
    """Human-readable first difference between two values ('' if equal)."""
    if veq(a, b) or veq(freeze(a) if isinstance(a, (list, dict)) else a, freeze(b) if isinstance(b, (list, dict)) else b):
        return ""
    if isinstance(a, T) and isinstance(b, T) and a.op == b.op and len(a.args) == len(b.args) and depth < 30:
        diffs = [(i, x, y) for i, (x, y) in enumerate(zip(a.args, b.args)) if not veq(x, y)]
        if len(diffs) == 1:
            i, x, y = diffs[0]
            d = first_diff(x, y, path + "/%s[%d]" % (a.op, i), depth + 1)
            if d:
                return d
    if isinstance(a, (list, tuple)) and isinstance(b, (list, tuple)) and len(a) == len(b):
        for i, (x, y) in enumerate(zip(a, b)):
            if not veq(x, y):
                d = first_diff(x, y, path + "/[%d]" % i, depth + 1)
                if d:
                    return d
    sa, sb = show(a), show(b)
    if len(sa) > 300:
        sa = sa[:300] + "…"
    if len(sb) > 300:
        sb = sb[:300] + "…"
    return "at %s: found %s ; expected %s" % (path or "/", sa, sb)


# ----------------------------------------------------------------------------- bit-vector normal form (on demand)
def _pow2(n):
    return isinstance(n, int) and not isinstance(n, bool) and n > 0 and n & (n - 1) == 0


def _is_byte(v):
    """A term whose value is known to lie in [0, 255]: an element of a bytes value."""
    if isinstance(v, T) and v.op == "idx":
        return tyof(_unfz1(v.args[0])) == BYTES
    return False


def _bv_components(v, memo):
    """v as an OR of components ((atom & mask) >> r) << l  ->  list of (atom, mask | None, r, l), or None if v is not a
    pure shift/or expression (then it is an atom itself)."""
    if isinstance(v, bool) or not isinstance(v, (int, T)):
        return None
    if isinstance(v, int):
        return [] if v == 0 else [(v, None, 0, 0)]
    op = v.op
    if op == "bor":
        out = []
        for x in v.args:
            c = _bv_components(_unfz1(x), memo)
            if c is None:
                return None
            out.extend(c)
        return out
    if op in ("shl", "shr") and isinstance(v.args[1], int) and not isinstance(v.args[1], bool) and v.args[1] >= 0:
        c = _bv_components(_unfz1(v.args[0]), memo)
        if c is None:
            return None
        k = v.args[1]
        out = []
        for atom, mask, r, l in c:
            if op == "shl":
                out.append((atom, mask, r, l + k))
            elif l >= k:
                out.append((atom, mask, r, l - k))
            else:
                out.append((atom, mask, r + (k - l), 0))
        return out
    if op == "floordiv" and _pow2(v.args[1]):
        return _bv_components(T("shr", (v.args[0], v.args[1].bit_length() - 1), INT), memo)
    if op == "mul" and len(v.args) == 2 and _pow2(v.args[0]):
        return _bv_components(T("shl", (v.args[1], v.args[0].bit_length() - 1), INT), memo)
    if op == "band" and len(v.args) == 2 and any(isinstance(x, int) and not isinstance(x, bool) for x in v.args):
        m = [x for x in v.args if isinstance(x, int)][0]
        y = [x for x in v.args if not (isinstance(x, int) and x is m)]
        y = _unfz1(y[0]) if y else m
        if _is_byte(y):
            return [(bvnorm(y, memo), m & 0xFF, 0, 0)]
    return [(bvnorm_inside(v, memo), None, 0, 0)]


def bvnorm_inside(v, memo):
    """Normalise the arguments of an atom (an atom may contain bit expressions, e.g. i2b(<bits>, n))."""
    if not isinstance(v, T):
        return v
    args = tuple(bvnorm(_unfz1(a), memo) if isinstance(a, (T, tuple, list)) else a for a in v.args)
    try:
        return renorm(v.op, args, v.ty)
    except Exception:
        return T(v.op, args, v.ty)


def bvnorm(v, memo=None):
    """Canonical form for expressions built from | << >> (and // 2^k, * 2^k, `byte & mask`): `(a << 11 | b) << 11 | c`,
    `a << 22 | b << 11 | c` and the same with the operands in another order become one term. Other terms are rebuilt
    with their arguments normalised. Used only for comparisons (bveq); constructors stay as they are."""
    memo = {} if memo is None else memo
    if isinstance(v, (list, tuple)) and not isinstance(v, T):
        return type(v)(bvnorm(x, memo) for x in v) if not (isinstance(v, tuple) and v and isinstance(v[0], str) and v[0].startswith("#")) else \
            (v[0],) + tuple(bvnorm(x, memo) for x in v[1:])
    if isinstance(v, dict):
        return {k: bvnorm(x, memo) for k, x in v.items()}
    if not isinstance(v, T):
        return v
    if id(v) in memo:
        return memo[id(v)]
    r = None
    if v.op in ("bor", "shl", "shr") or (v.op == "floordiv" and _pow2(v.args[1])) or (v.op == "mul" and len(v.args) == 2 and _pow2(v.args[0])):
        comps = _bv_components(v, memo)
        if comps is not None:
            const = 0
            items = []
            for atom, mask, rr, ll in comps:
                if isinstance(atom, int) and not isinstance(atom, bool):
                    x = atom if mask is None else atom & mask
                    const |= (x >> rr) << ll
                    continue
                if mask is not None and (mask | ((1 << rr) - 1)) & 0xFF == 0xFF:
                    mask = None  # every bit that survives the right shift is kept by the mask
                items.append((show(atom), atom, mask, rr, ll))
            items.sort(key=lambda t: (t[0], t[3], t[4], -1 if t[2] is None else t[2]))
            seen = []
            for it in items:
                if not seen or seen[-1][0] != it[0] or seen[-1][2:] != it[2:]:
                    seen.append(it)
            args = tuple(("#c", it[1], it[2], it[3], it[4]) for it in seen)
            if not args:
                r = const
            elif len(args) == 1 and const == 0 and args[0][2] is None and args[0][3] == 0 and args[0][4] == 0:
                r = args[0][1]
            else:
                r = T("bvor", (const,) + args, INT)
    elif v.op == "mod" and len(v.args) == 2 and _pow2(v.args[1]):
        r = bvnorm(T("band", (v.args[1] - 1, v.args[0]), INT), memo)
    elif v.op == "band" and len(v.args) == 2:
        m = [x for x in v.args if isinstance(x, int) and not isinstance(x, bool)]
        if m:
            y = [x for x in v.args if x is not m[0]]
            y = bvnorm(_unfz1(y[0]), memo) if y else m[0]
            # low-bit mask over an OR of shifted components: drop the components shifted above the mask
            if isinstance(y, T) and y.op == "bvor" and m[0] >= 0:
                keep = tuple(c for c in y.args[1:] if c[4] == 0 or (1 << c[4]) <= m[0])
                y = T("bvor", (y.args[0],) + keep, INT) if keep != y.args[1:] else y
            r = T("band", (m[0], y), INT)
    if r is None:
        r = bvnorm_inside(v, memo)
    memo[id(v)] = r
    return r


def bveq(a, b):
    if veq(a, b):
        return True
    return veq(freeze(bvnorm(a)), freeze(bvnorm(b)))
