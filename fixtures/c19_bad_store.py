# Canary fixture for the C19 rules (never imported, only parsed): a block writer that rewrites files and may skip blocks.
import os


def write_blocks_to_disk(blocks, datadir):
    path = os.path.join(datadir, "blk00000.dat")
    f = open(path, "r+b")
    for blk in blocks:
        if blk:
            f.seek(0)
            f.write(blk)
    f.truncate()
    os.rename(path, path + ".bak")
