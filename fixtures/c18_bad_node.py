# Canary fixture for the C18 rules (never imported, only parsed): a receive loop that violates OWN / ATOM / COUNT.
from collections import deque


class Node:
    def __init__(self):
        self._msg_queue = deque([])
        self._registered_commands_to_handle = [b"ping"]
        self._peer_sockets = {}
        self._last = None

    def recv_loop(self, peer_no):
        while True:
            start_bytes, command, payload = recv_msg(self._peer_sockets[peer_no])
            self._last = (peer_no, command, payload)            # shared slot written by every peer thread
            self._msg_queue.append((peer_no, command, payload))
            if command in self._registered_commands_to_handle:
                self._msg_queue.pop()                            # removes somebody else's message under interleaving
                self.handle_command(peer_no, command, payload)
            if command == b"dup":
                self._msg_queue.append((peer_no, command, payload))

    def handle_command(self, peer_no, command, payload):
        self._registered_commands_to_handle.append(command)
